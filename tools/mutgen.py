#!/usr/bin/env python3
"""Systematic single-operator mutants of /repo/src (non-test code), as a complement to the hand-written seeded changes.

usage: mutgen.py gen <outdir> [<max-per-file>]     write <outdir>/mNNN.diff (+ index.json), one operator edit each
The operators are the usual ones (relational / logical / arithmetic swaps, boolean literals, dropped negation, dropped
`?`-less statement, off-by-one on integer literals).  Which of them survive the existing test suite and which of those
the checks report is decided by tools/mutrun.sh; nothing here is run by the registered checks.
"""
import json
import os
import random
import re
import subprocess
import sys

REPO = os.environ.get("VERIF_REPO", "/repo")

OPS = [
    (r"==", "!="), (r"!=", "=="),
    (r"<=", "<"), (r">=", ">"),
    (r"(?<![<\-=])<(?![<=])", "<="), (r"(?<![>\-=])>(?![>=])", ">="),
    (r"&&", "||"), (r"\|\|", "&&"),
    (r"\+ 1\b", "+ 0"), (r"- 1\b", "- 0"), (r"\+= 1\b", "+= 2"),
    (r"\btrue\b", "false"), (r"\bfalse\b", "true"),
    (r"(?<![\w!])!(?=[a-zA-Z(])", ""),
    (r"\.is_some\(\)", ".is_none()"), (r"\.is_none\(\)", ".is_some()"),
    (r"\.is_ok\(\)", ".is_err()"), (r"\.is_err\(\)", ".is_ok()"),
    (r"\.is_empty\(\)", ".len() > 1"),
    (r"\bstarts_with\(", "ends_with("), (r"\bends_with\(", "starts_with("),
    (r"\.first\(\)", ".last()"), (r"\.last\(\)", ".first()"),
    (r"\bcontinue;", "break;"), (r"\bbreak;", "continue;"),
    (r"\bSome\(([a-z_]+)\) =>", r"Some(\1) if false =>"),
]


def code_lines(path):
    """(line number, text) of non-test, non-comment code lines"""
    out = []
    txt = open(path).read().split("\n")
    for i, l in enumerate(txt):
        if l.strip().startswith("#[cfg(test)]"):
            break
        s = l.strip()
        if not s or s.startswith("//") or s.startswith("#[") or s.startswith("use ") or s.startswith("pub use "):
            continue
        if "log::" in l or "format!(" in l or "attach_printable" in l or "println!" in l or "///" in l:
            continue
        out.append((i, l))
    return txt, out


def gen(outdir, per_file):
    os.makedirs(outdir, exist_ok=True)
    rnd = random.Random(20261005)
    index = []
    n = 0
    files = []
    for dp, dn, fn in os.walk(os.path.join(REPO, "src")):
        dn.sort()
        files += [os.path.join(dp, f) for f in sorted(fn) if f.endswith(".rs")]
    for path in files:
        txt, lines = code_lines(path)
        cands = []
        for i, l in lines:
            # do not touch generic brackets / arrows / lifetimes: only lines without `->`, `<'`, `::<`, `Vec<` ...
            for k, (pat, rep) in enumerate(OPS):
                for m in re.finditer(pat, l):
                    if pat.startswith("(?<![<") or pat.startswith("(?<![>"):
                        if re.search(r"->|=>|<'|::<|\w<[A-Z&(']|impl<|fn \w+<|>>|<<|> \{|>,|>\)|>;|> =", l):
                            continue
                    cands.append((i, m.start(), m.end(), k))
        rnd.shuffle(cands)
        rel = os.path.relpath(path, REPO)
        for (i, a, b, k) in cands[:per_file]:
            l = txt[i]
            new = l[:a] + re.sub(OPS[k][0], OPS[k][1], l[a:b]) + l[b:]
            if new == l:
                continue
            mutated = txt[:i] + [new] + txt[i + 1:]
            tmp = os.path.join(outdir, "tmp.rs")
            open(tmp, "w").write("\n".join(mutated))
            d = subprocess.run(["diff", "-u", "--label", "a/" + rel, "--label", "b/" + rel, path, tmp], stdout=subprocess.PIPE).stdout.decode()
            os.remove(tmp)
            name = "m%03d" % n
            n += 1
            open(os.path.join(outdir, name + ".diff"), "w").write(d)
            index.append({"id": name, "file": rel, "line": i + 1, "op": OPS[k][0] + " -> " + OPS[k][1], "before": l.strip(), "after": new.strip()})
    json.dump(index, open(os.path.join(outdir, "index.json"), "w"), indent=1)
    print(len(index), "mutants in", outdir)


if __name__ == "__main__":
    if sys.argv[1] == "gen":
        gen(sys.argv[2], int(sys.argv[3]) if len(sys.argv) > 3 else 12)
