#!/bin/sh
# usage: tools/mut.sh <repo-relative-file> <old-text> <new-text> <Cxx>...
# scratch copy of /repo/src with one textual replacement; runs the given checks against it.
F="$1"; OLD="$2"; NEW="$3"; shift 3
D=$(mktemp -d /tmp/mut.XXXXXX)
cp -r /repo/src "$D/src"; cp /repo/Cargo.toml /repo/Cargo.lock "$D/"
python3 - "$D/$F" "$OLD" "$NEW" <<'PY' || { rm -rf "$D"; exit 3; }
import sys
p,old,new=sys.argv[1:4]
s=open(p).read()
if s.count(old)!=1:
    print("mutation site found",s.count(old),"times"); sys.exit(1)
open(p,'w').write(s.replace(old,new))
PY
cd "$(dirname "$0")/.."
for c in "$@"; do
  VERIF_REPO="$D" VERIF_OUT_DIR="$D/out" ./check "$c" > "$D/log" 2>&1; rc=$?
  grep -E "VIOLATION|UNDECIDED|^OK|failed obligation" "$D/log" | cut -c1-220; echo "  -> $c rc=$rc"
done
rm -rf "$D"
