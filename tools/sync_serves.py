#!/usr/bin/env python3
"""units.json must say that a unit serves every property named in the labels (`// @ob C01+C12.name`) of the contract
clauses it verifies (stubs excluded: a stub's clauses are proved in the unit that owns the function).  This tool scans
the unit templates and the contract files they include for the NON-stub functions and adds what is missing."""
import json, os, re, sys
V = os.path.dirname(os.path.dirname(os.path.abspath(__file__)))
cfg = json.load(open(os.path.join(V, "units.json")))
changed = False
for unit in cfg["units"]:
    text = open(os.path.join(V, "units", unit + ".vrs")).read()
    # split into //@fn ... //@end sections; ignore stub sections
    labels = set()
    for m in re.finditer(r"(?ms)^//@fn ([^\n]*)\n(.*?)^//@end", text):
        head, body = m.group(1), m.group(2)
        if re.search(r"\bstub\b", head):
            continue
        body = re.sub(r"(?m)^[ \t]*//@@include[ \t]+(\S+)[ \t]*$", lambda mm: open(os.path.join(V, mm.group(1))).read(), body)
        labels |= set(re.findall(r"@ob ([A-Z0-9+]+)\.", body))
    # labelled assertions / lemmas outside fn sections (spec files) are not scanned: they belong to the fn that calls them
    props = set()
    for l in labels:
        props |= {p for p in l.split("+") if re.fullmatch(r"C\d\d", p)}
    for p in sorted(props):
        if p not in cfg["units"][unit]["serves"]:
            cfg["units"][unit]["serves"].append(p); changed = True
            print(f"{unit}: now serves {p} (a clause label names it)")
        if unit not in cfg["properties"][p]["units"]:
            cfg["properties"][p]["units"].append(unit); changed = True
            print(f"{p}: unit {unit} added")
if changed:
    json.dump(cfg, open(os.path.join(V, "units.json"), "w"), indent=1)
print("units.json in sync with the clause labels" if not changed else "units.json updated")
