#!/bin/sh
# usage: tools/mutcheck.sh <mutant-dir> <parallel>
# Phase 2: every suite-surviving operator mutant against the 18 checks (stops at the first VIOLATION).
# Result: <mutant-dir>/checks.txt  (id, first property that reports it or "none", exit codes seen)
M="$1"; P="${2:-4}"
V="$(cd "$(dirname "$0")/.." && pwd)"
: > "$M/checks.txt"
grep survives "$M/suite.txt" | awk '{print $1}' | xargs -P "$P" -I{} sh -c '
  id={}; M='"$M"'; V='"$V"'
  D=$(mktemp -d /tmp/mut.XXXXXX); cp -r /repo/src "$D/src"; cp /repo/Cargo.toml /repo/Cargo.lock "$D/"
  (cd "$D" && patch -s -p1 < "$M/$id.diff") || { echo "$id patch-failed" >> "$M/checks.txt"; rm -rf "$D"; exit 0; }
  hit=none; seen=""
  for c in C01 C02 C03 C04 C05 C06 C07 C08 C09 C10 C11 C12 C13 C14 C15 C16 C17 C18; do
    (cd "$V" && VERIF_REPO="$D" VERIF_OUT_DIR="$D/out" ./check $c > "$D/log.$c" 2>&1); rc=$?
    seen="$seen $c=$rc"
    if [ $rc = 1 ]; then hit=$c; grep -m2 "failed obligation" "$D/log.$c" | cut -c1-200 > "$M/$id.hit"; break; fi
  done
  echo "$id $hit$seen" >> "$M/checks.txt"; rm -rf "$D"'
sort "$M/checks.txt"
