#!/usr/bin/env python3
"""Regenerates MANIFEST.json from units.json + manifest_meta.json (kept valid at all times)."""
import json, os
V = os.path.dirname(os.path.dirname(os.path.abspath(__file__)))
cfg = json.load(open(os.path.join(V, "units.json")))
meta = json.load(open(os.path.join(V, "manifest_meta.json")))
props = [json.loads(l) for l in open(os.path.join(V, "properties.jsonl"))]
checks, na = [], []
for p in props:
    pid = p["id"]
    if pid in cfg["properties"] and pid in meta["claimed"]:
        m = meta["claimed"][pid]
        checks.append({
            "property_id": pid,
            "quick_cmd": f"./check {pid} --tier quick",
            "thorough_cmd": f"./check {pid} --tier thorough",
            "evidence_file": f"/verif/evidence/{pid}.json",
            "replay_cmd_template": f"./check {pid} --replay {{path}}",
            "engine": "verus-contracts",
            "level_claimed": {"category": "proof", "text": m["text"], "design_ref": m.get("design_ref", "DESIGN.md section 5")},
            "level_note": m["note"],
            "technique": m.get("technique", "contract-based deductive verification (Verus) of functions extracted mechanically from /repo"),
        })
    else:
        na.append({"property_id": pid, "reason": meta["not_applicable"].get(pid, "no check built yet in this session (work in progress)")})
man = {
    "version": 1,
    "setup_cmd": "./setup.sh",
    "hooks": meta["hooks"],
    "engines": [{"name": "verus-contracts", "path": "/verif/check",
                 "serves_properties": [c["property_id"] for c in checks],
                 "kind_free_text": "mechanical extraction of real function bodies from /repo + contracts (units/*.vrs) + Verus 0.2026.09.13; vacuity guards; assumption scan"}],
    "checks": checks,
    "notes": meta.get("notes", ""),
    "not_applicable": na,
}
json.dump(man, open(os.path.join(V, "MANIFEST.json"), "w"), indent=1)
print(f"MANIFEST.json: {len(checks)} checks, {len(na)} not_applicable")
