#!/bin/sh
# usage: tools/mutrun.sh <mutant-dir> <workers>
# Phase 1: which operator mutants (tools/mutgen.py) survive the existing test suite.  Scratch copies live under
# <mutant-dir>/w<k> (outside /repo and /verif) and are removed at the end.  Result: <mutant-dir>/suite.txt
M="$1"; W="${2:-8}"
export CARGO_NET_OFFLINE=true
k=0
while [ $k -lt $W ]; do
  mkdir -p "$M/w$k"; rsync -a --exclude target --exclude .git /repo/ "$M/w$k/"; k=$((k+1))
done
ls "$M" | grep '^m[0-9]*\.diff$' | sed 's/\.diff$//' > "$M/all.txt"
: > "$M/suite.txt"
k=0
while [ $k -lt $W ]; do
  ( awk -v k=$k -v w=$W 'NR % w == k' "$M/all.txt" | while read id; do
      d="$M/w$k"
      f=$(grep -m1 '^+++ b/' "$M/$id.diff" | sed 's#^+++ b/##')
      (cd "$d" && patch -s -p1 < "$M/$id.diff") || { echo "$id patch-failed" >> "$M/suite.txt"; cp "/repo/$f" "$d/$f"; continue; }
      if ! (cd "$d" && cargo build --offline -q --all-targets >/dev/null 2>&1); then r=compile-fail
      elif (cd "$d" && timeout 600 cargo test --workspace --offline --no-fail-fast -q >/dev/null 2>&1); then r=survives
      else r=killed-by-suite; fi
      echo "$id $r" >> "$M/suite.txt"
      cp "/repo/$f" "$d/$f"
    done ) &
  k=$((k+1))
done
wait
k=0; while [ $k -lt $W ]; do rm -rf "$M/w$k"; k=$((k+1)); done
sort "$M/suite.txt" | awk '{print $2}' | sort | uniq -c
