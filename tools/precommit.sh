#!/bin/sh
# runs every claimed check on the unchanged tree (rewriting evidence) and validates MANIFEST + evidence
cd "$(dirname "$0")/.."
python3 tools/sync_serves.py >/dev/null
python3 tools/mkmanifest.py >/dev/null
./check all "$@" 2>&1 | grep -E "^OK|UNDECIDED|VIOLATION|KNOWN-FINDING"
python3-vt - <<'PY'
import json, jsonschema, glob
man = json.load(open('/verif/MANIFEST.json'))
jsonschema.validate(man, json.load(open('/root/.vp/MANIFEST.schema.json')))
es = json.load(open('/root/.vp/EVIDENCE.schema.json'))
bad = 0
for c in man['checks']:
    try:
        ev = json.load(open(c['evidence_file']))
        jsonschema.validate(ev, es)
        if ev['coverage']['obligations'] != ev['coverage']['discharged']:
            print('evidence not fully discharged:', c['property_id']); bad += 1
    except Exception as e:
        print('evidence invalid:', c['property_id'], str(e)[:100]); bad += 1
print('manifest+evidence ok' if not bad else f'{bad} evidence problems')
PY
