#!/bin/sh
# usage: tools/try_patch.sh <patch.diff> <Cxx> [<Cyy> ...]
# Applies the patch to a scratch copy of /repo/src (outside /repo and /verif), runs the given checks
# against it (VERIF_REPO), prints their outcome, and removes the scratch copy.
P="$1"; shift
D=$(mktemp -d /tmp/mut.XXXXXX)
cp -r /repo/src "$D/src"; cp /repo/Cargo.toml /repo/Cargo.lock "$D/"
(cd "$D" && patch -s -p1 < "$P") || { echo "patch failed"; rm -rf "$D"; exit 3; }
cd "$(dirname "$0")/.."
for c in "$@"; do
  VERIF_REPO="$D" VERIF_OUT_DIR="$D/out" ./check "$c" > "$D/log" 2>&1; rc=$?; grep -E "VIOLATION|UNDECIDED|^OK|failed obligation" "$D/log"; echo "  -> $c rc=$rc"
done
rm -rf "$D"
