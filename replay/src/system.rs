//! System-level bounded stand-in: small generated projects are processed by the REAL txtpp (library entry point) in
//! scratch directories and compared with a reference interpreter, which is an executable transcription of
//! /verif/spec/pp.rs (README semantics).  Bounded: a fixed list of scenarios x modes x pre-states x thread counts.
//! It is a fall-back / witness search for the contract checks, never a proof.

use std::collections::{BTreeMap, BTreeSet};
use std::fs;
use std::os::unix::fs::MetadataExt;
use std::path::{Path, PathBuf};
use txtpp::{Config, Mode, Txtpp, Verbosity};

pub struct Scenario {
    pub name: &'static str,
    pub files: Vec<(&'static str, Vec<u8>)>,
    pub inputs: Vec<&'static str>,
    pub recursive: bool,
}

fn s(x: &str) -> Vec<u8> {
    x.as_bytes().to_vec()
}

pub fn scenarios() -> Vec<Scenario> {
    let long = format!("{}\r\nsecond\r\n", "x".repeat(9000));
    vec![
        Scenario { name: "plain_lf", files: vec![("a.txt.txtpp", s("one\ntwo\n  three\n"))], inputs: vec!["."], recursive: false },
        Scenario { name: "plain_crlf", files: vec![("a.txt.txtpp", s("one\r\ntwo\nthree\r\n"))], inputs: vec!["."], recursive: false },
        Scenario { name: "no_final_newline", files: vec![("a.txt.txtpp", s("one\ntwo"))], inputs: vec!["."], recursive: false },
        Scenario { name: "empty", files: vec![("a.txt.txtpp", s(""))], inputs: vec!["."], recursive: false },
        Scenario { name: "long_first_line_crlf", files: vec![("a.txt.txtpp", long.into_bytes())], inputs: vec!["."], recursive: false },
        Scenario {
            name: "include_static",
            files: vec![
                ("a.txt.txtpp", s("head\n    // TXTPP#include inc.txt\ntail\n  -TXTPP#include nonl.txt\nend\n")),
                ("inc.txt", s("i1\r\ni2\n")),
                ("nonl.txt", s("n1\nn2")),
            ],
            inputs: vec!["."],
            recursive: false,
        },
        Scenario {
            name: "run_echo",
            files: vec![("a.txt.txtpp", s("x\n  # TXTPP#run echo 1; echo 2\ny\n-TXTPP#run printf 'p q'\nz\n"))],
            inputs: vec!["."],
            recursive: false,
        },
        Scenario {
            name: "run_multiline_quotes",
            files: vec![("a.txt.txtpp", s("// TXTPP#run printf '[%s]\\n' \"a\n//\n// b\"\nend\n"))],
            inputs: vec!["."],
            recursive: false,
        },
        Scenario {
            name: "run_cwd_and_file",
            files: vec![
                ("sub/deep/a.txt.txtpp", s("-TXTPP#run cat marker.txt; basename \"$PWD\"; echo $TXTPP_FILE\n")),
                ("sub/deep/marker.txt", s("MARK\n")),
            ],
            inputs: vec!["."],
            recursive: true,
        },
        Scenario {
            name: "write_escape",
            files: vec![("a.txt.txtpp", s("  -TXTPP#write -TXTPP#run echo no\n  -TAGX stays\n  -\n  -last\nTAGX\n-TXTPP#write a\n-b\n"))],
            inputs: vec!["."],
            recursive: false,
        },
        Scenario {
            name: "write_crlf_col0",
            files: vec![("a.txt.txtpp", s("first\r\n-TXTPP#write l1\r\n-l2\r\n-l3\r\nend\r\n"))],
            inputs: vec!["."],
            recursive: false,
        },
        Scenario {
            name: "temp_files",
            files: vec![
                ("a.txt.txtpp", s("// TXTPP#temp t1.txt\n// line1\n//\n//   line3\nmid\n-TXTPP#temp sub/t2.txt\n+TXTPP#include t1.txt\nend\n")),
                ("sub/keep.txt", s("k\n")),
            ],
            inputs: vec!["."],
            recursive: false,
        },
        Scenario { name: "temp_empty", files: vec![("a.txt.txtpp", s("-TXTPP#temp e.txt\nx\n"))], inputs: vec!["."], recursive: false },
        Scenario { name: "temp_nonascii", files: vec![("a.txt.txtpp", s("-TXTPP#temp u.txt\n-héllo wörld\n-ü\nx\n"))], inputs: vec!["."], recursive: false },
        Scenario { name: "temp_at_eof", files: vec![("a.txt.txtpp", s("x\n-TXTPP#temp e.txt\n-content"))], inputs: vec!["."], recursive: false },
        Scenario { name: "temp_txtpp_target", files: vec![("a.txt.txtpp", s("-TXTPP#temp page.txtpp.md\n-x\n"))], inputs: vec!["."], recursive: false },
        Scenario {
            name: "tags",
            files: vec![("a.txt.txtpp", s("-TXTPP#tag T1\n-TXTPP#temp z.txt\n+TXTPP#run printf 'A\\nB'\n-TXTPP#tag T2\n-TXTPP#write w\n<T1>T2 T1 T2</T1>\nplain T1\n"))],
            inputs: vec!["."],
            recursive: false,
        },
        Scenario {
            name: "tags_overlap",
            files: vec![("a.txt.txtpp", s("-TXTPP#tag <A>\n-TXTPP#write 1\n+TXTPP#tag A>B\n+TXTPP#write 2\nx<A>B y\nA>B\n"))],
            inputs: vec!["."],
            recursive: false,
        },
        Scenario {
            name: "tags_crlf_values",
            files: vec![("a.txt.txtpp", s("x\r\n-TXTPP#tag V\r\n-TXTPP#include lf.txt\r\n[V]\r\n")), ("lf.txt", s("1\n2\n"))],
            inputs: vec!["."],
            recursive: false,
        },
        Scenario { name: "tag_while_listening", files: vec![("a.txt.txtpp", s("-TXTPP#tag A\n-TXTPP#tag B\n-TXTPP#write w\nA B\n"))], inputs: vec!["."], recursive: false },
        Scenario { name: "tag_unused", files: vec![("a.txt.txtpp", s("-TXTPP#tag T\n-TXTPP#write w\nno use\n"))], inputs: vec!["."], recursive: false },
        Scenario { name: "tag_prefix_conflict", files: vec![("a.txt.txtpp", s("-TXTPP#tag Foo\n-TXTPP#write w\n+TXTPP#tag FooBar\n+TXTPP#write v\nFoo FooBar\n"))], inputs: vec!["."], recursive: false },
        Scenario { name: "prefixless_multiline", files: vec![("a.txt.txtpp", s("x\nTXTPP#run echo hi\ny\n"))], inputs: vec!["."], recursive: false },
        Scenario { name: "directive_lookalikes", files: vec![("a.txt.txtpp", s("a TXTPP#runx b\n-TXTPP#run\techo t\n-TXTPP#\tnote\n-TXTPP# TXTPP#write q\nTXTPP\n# TXTPP#includes x\n\u{3000}text\n"))], inputs: vec!["."], recursive: false },
        Scenario { name: "directive_at_eof", files: vec![("a.txt.txtpp", s("x\n-TXTPP#run echo tail"))], inputs: vec!["."], recursive: false },
        Scenario { name: "include_at_eof_with_newline", files: vec![("a.txt.txtpp", s("head\n-TXTPP#include inc.txt")), ("inc.txt", s("foo\nbar\n"))], inputs: vec!["."], recursive: false },
        Scenario { name: "include_then_silent", files: vec![("a.txt.txtpp", s("-TXTPP#include inc.txt\n-TXTPP#\n")), ("inc.txt", s("body\n"))], inputs: vec!["."], recursive: false },
        Scenario { name: "only_silent", files: vec![("a.txt.txtpp", s("-TXTPP# nothing\n"))], inputs: vec!["."], recursive: false },
        Scenario {
            name: "chain",
            files: vec![
                ("a.txt.txtpp", s("A\n-TXTPP#include sub/b.txt\nA2\n")),
                ("sub/b.txt.txtpp", s("B\r\n-TXTPP#include ../c\r\n")),
                ("c.txtpp", s("C1\nC2")),
            ],
            inputs: vec!["a.txt"],
            recursive: false,
        },
        Scenario {
            name: "diamond_after",
            files: vec![
                ("a.txt.txtpp", s("-TXTPP#after b.txt\n-TXTPP#include c.txt\n-TXTPP#include b.txt\n")),
                ("b.txt.txtpp", s("-TXTPP#include d.txt\nb\n")),
                ("c.txtpp.txt", s("-TXTPP#include d.txt\nc\n")),
                ("d.txt.txtpp", s("-TXTPP#run echo d\n")),
            ],
            inputs: vec![".", "a.txt.txtpp", "./a.txt"],
            recursive: false,
        },
        Scenario { name: "self_cycle", files: vec![("a.txt.txtpp", s("-TXTPP#include a.txt\n")), ("ok.txt.txtpp", s("fine\n"))], inputs: vec!["."], recursive: false },
        Scenario {
            name: "two_cycle_with_bystanders",
            files: vec![
                ("a.txt.txtpp", s("-TXTPP#include b.txt\n")),
                ("b.txt.txtpp", s("-TXTPP#include a.txt\n")),
                ("x.txt.txtpp", s("-TXTPP#include y.txt\nx\n")),
                ("y.txt.txtpp", s("-TXTPP#include z.txt\ny\n")),
                ("z.txt.txtpp", s("z\n")),
            ],
            inputs: vec!["."],
            recursive: false,
        },
        Scenario { name: "missing_include", files: vec![("a.txt.txtpp", s("-TXTPP#include nope.txt\n")), ("b.txt.txtpp", s("b\n"))], inputs: vec!["."], recursive: false },
        Scenario { name: "failing_command", files: vec![("a.txt.txtpp", s("-TXTPP#run echo partial; exit 3\n"))], inputs: vec!["."], recursive: false },
        Scenario {
            name: "names_and_decoys",
            files: vec![
                ("foo.md.txtpp", s("1\n")),
                ("bar.txtpp.md", s("2\n")),
                ("baz.txtpp", s("3\n")),
                ("a.b.txtpp.c", s("4\n")),
                ("txtpp", s("decoy1\n")),
                (".txtpp", s("decoy2\n")),
                ("a.txtpp.b.c", s("decoy3\n")),
                ("notes.txtpp.txt.bak", s("decoy4\n")),
                ("foo.tmp", s("decoy5\n")),
                ("sub/inner.txt.txtpp", s("inner\n")),
            ],
            inputs: vec!["."],
            recursive: false,
        },
        Scenario {
            name: "recursive_and_aliases",
            files: vec![("top.txt.txtpp", s("t\n-TXTPP#run echo once >> count.log\n")), ("sub/inner.txt.txtpp", s("inner\n")), ("sub/deeper/d.txt.txtpp", s("d\n"))],
            inputs: vec![".", "top.txt", "sub/../top.txt.txtpp", "."],
            recursive: true,
        },
        Scenario { name: "run_invalid_utf8", files: vec![("a.txt.txtpp", s("-TXTPP#run printf 'a\\377b\\n'\nend\n"))], inputs: vec!["."], recursive: false },
        Scenario {
            name: "self_cycle_with_chain",
            files: vec![
                ("a.txt.txtpp", s("-TXTPP#include a.txt\n")),
                ("x.txt.txtpp", s("-TXTPP#include y.txt\nx\n")),
                ("y.txt.txtpp", s("-TXTPP#include z.txt\ny\n")),
                ("z.txt.txtpp", s("-TXTPP#run sleep 0.3; echo z\n")),
            ],
            inputs: vec!["."],
            recursive: false,
        },
        Scenario {
            name: "timed_partial_deps",
            files: vec![
                ("a.txt.txtpp", s("-TXTPP#run sleep 0.3\nTXTPP#include b.txt\nTXTPP#include c.txt\n")),
                ("b.txt.txtpp", s("-TXTPP#run sleep 1.2; printf 'fresh-b \\303\\251\\n'\n")),
                ("c.txt.txtpp", s("c-line\n")),
                ("d.txt.txtpp", s("TXTPP#include a.txt\n")),
            ],
            inputs: vec!["."],
            recursive: false,
        },
        Scenario {
            name: "write_body_looks_like_temp",
            files: vec![
                ("a.txt.txtpp", s("// TXTPP#write first\n// TXTPP#temp victim.txt\n// more\nend\n")),
                ("victim.txt", s("not generated by txtpp\n")),
            ],
            inputs: vec!["."],
            recursive: false,
        },
        Scenario { name: "named_subdir", files: vec![("sub/inner.txt.txtpp", s("inner\n")), ("top.txt.txtpp", s("top\n"))], inputs: vec!["sub"], recursive: false },
        Scenario {
            name: "same_command_two_dirs",
            files: vec![
                ("a/x.txt.txtpp", s("-TXTPP#run cat marker.txt; basename \"$PWD\"; echo $TXTPP_FILE\n")),
                ("a/marker.txt", s("MARK-A\n")),
                ("b/y.txt.txtpp", s("-TXTPP#run cat marker.txt; basename \"$PWD\"; echo $TXTPP_FILE\n")),
                ("b/marker.txt", s("MARK-B\n")),
            ],
            inputs: vec!["."],
            recursive: true,
        },
        Scenario { name: "invalid_utf8_midfile", files: vec![("a.txt.txtpp", b"ok\n\xff\xfe broken\nmore\n".to_vec())], inputs: vec!["."], recursive: false },
        Scenario { name: "bom_first_line", files: vec![("a.txt.txtpp", s("\u{feff}hello\nworld\n"))], inputs: vec!["."], recursive: false },
        Scenario { name: "temp_trailing_empty_lines", files: vec![("a.txt.txtpp", s("-TXTPP#temp t.txt\n-a\n-\n-\nx\n"))], inputs: vec!["."], recursive: false },
        Scenario { name: "symlinked_source_and_dir", files: vec![("real/r.txt.txtpp", s("r\n")), ("shared/deep/d.txt.txtpp", s("d\n")), ("scan/keep.txt", s("k\n"))], inputs: vec!["scan"], recursive: true },
        Scenario {
            name: "nonascii_prefix_continuation",
            files: vec![("a.txt.txtpp", s("\u{bb} TXTPP#write a\n\u{bb} b\n  \n\u{bb}\nend\n\u{e9}\u{e9} TXTPP#run echo r\n   \nx\n"))],
            inputs: vec!["."],
            recursive: false,
        },
        Scenario {
            name: "dep_only_via_txtpp_ext",
            files: vec![("a.txt.txtpp", s("-TXTPP#include part.txt\n-TXTPP#after data.csv\n+TXTPP#run cat data.csv\n")), ("part.txtpp.txt", s("-TXTPP#run echo fresh part\n")), ("data.txtpp.csv", s("1,2\n"))],
            inputs: vec!["a.txt"],
            recursive: false,
        },
        Scenario {
            name: "cycle_via_txtpp_ext",
            files: vec![("loop.txtpp.md", s("-TXTPP#include loop.md\n")), ("ok.txt.txtpp", s("fine\n"))],
            inputs: vec!["."],
            recursive: false,
        },
        Scenario { name: "include_invalid_utf8", files: vec![("a.txt.txtpp", s("head\n-TXTPP#include bad.bin\n")), ("bad.bin", b"ok\xff\xfe\n".to_vec())], inputs: vec!["."], recursive: false },
        Scenario {
            name: "temp_outside_dir",
            files: vec![("sub/a.txt.txtpp", s("-TXTPP#temp ../gen/x.txt\n-content\nmid\n+TXTPP#temp deeper/y.txt\n+y\n")), ("gen/keep.txt", s("k\n")), ("sub/deeper/keep.txt", s("k\n"))],
            inputs: vec!["sub"],
            recursive: false,
        },
        Scenario { name: "temp_in_missing_dir", files: vec![("a.txt.txtpp", s("-TXTPP#temp cache/gen/x.txt\n-content\n"))], inputs: vec!["."], recursive: false },
        Scenario {
            name: "tag_single_line_foreign_le",
            files: vec![("a.txt.txtpp", s("-TXTPP#tag V\n-TXTPP#include one_crlf.txt\n[V]\n-TXTPP#tag W\n-TXTPP#run echo hi\n<W>\n")), ("one_crlf.txt", s("hello\r\n"))],
            inputs: vec!["."],
            recursive: false,
        },
        Scenario { name: "directive_names_are_case_sensitive", files: vec![("a.txt.txtpp", s("-TXTPP#Run echo no\n// TXTPP#WRITE x\n# TXTPP#Tag T\n-TXTPP#Include a\nT\n"))], inputs: vec!["."], recursive: false },
        Scenario {
            name: "custom_shell_one_word",
            files: vec![("a.txt.txtpp", s("-TXTPP#run one two  three\nend\n")), ("probe.sh", s("#!/bin/sh\nprintf 'argc=%s\\n' \"$#\"\nfor a in \"$@\"; do printf '[%s]\\n' \"$a\"; done\n"))],
            inputs: vec!["."],
            recursive: false,
        },
        Scenario {
            name: "many_files_one_failing",
            files: vec![("a_bad.txt.txtpp", s("-TXTPP#include nope.txt\n")), ("f00.txt.txtpp", s("file 0\\n-TXTPP#run echo 0\\n")), ("f01.txt.txtpp", s("file 1\\n-TXTPP#run echo 1\\n")), ("f02.txt.txtpp", s("file 2\\n-TXTPP#run echo 2\\n")), ("f03.txt.txtpp", s("file 3\\n-TXTPP#run echo 3\\n")), ("f04.txt.txtpp", s("file 4\\n-TXTPP#run echo 4\\n")), ("f05.txt.txtpp", s("file 5\\n-TXTPP#run echo 5\\n")), ("f06.txt.txtpp", s("file 6\\n-TXTPP#run echo 6\\n")), ("f07.txt.txtpp", s("file 7\\n-TXTPP#run echo 7\\n")), ("f08.txt.txtpp", s("file 8\\n-TXTPP#run echo 8\\n")), ("f09.txt.txtpp", s("file 9\\n-TXTPP#run echo 9\\n")), ("f10.txt.txtpp", s("file 10\\n-TXTPP#run echo 10\\n")), ("f11.txt.txtpp", s("file 11\\n-TXTPP#run echo 11\\n")), ("f12.txt.txtpp", s("file 12\\n-TXTPP#run echo 12\\n")), ("f13.txt.txtpp", s("file 13\\n-TXTPP#run echo 13\\n")), ("f14.txt.txtpp", s("file 14\\n-TXTPP#run echo 14\\n")), ("f15.txt.txtpp", s("file 15\\n-TXTPP#run echo 15\\n")), ("f16.txt.txtpp", s("file 16\\n-TXTPP#run echo 16\\n")), ("f17.txt.txtpp", s("file 17\\n-TXTPP#run echo 17\\n")), ("f18.txt.txtpp", s("file 18\\n-TXTPP#run echo 18\\n")), ("f19.txt.txtpp", s("file 19\\n-TXTPP#run echo 19\\n")), ("f20.txt.txtpp", s("file 20\\n-TXTPP#run echo 20\\n")), ("f21.txt.txtpp", s("file 21\\n-TXTPP#run echo 21\\n")), ("f22.txt.txtpp", s("file 22\\n-TXTPP#run echo 22\\n")), ("f23.txt.txtpp", s("file 23\\n-TXTPP#run echo 23\\n")), ("f24.txt.txtpp", s("file 24\\n-TXTPP#run echo 24\\n")), ("f25.txt.txtpp", s("file 25\\n-TXTPP#run echo 25\\n")), ("f26.txt.txtpp", s("file 26\\n-TXTPP#run echo 26\\n")), ("f27.txt.txtpp", s("file 27\\n-TXTPP#run echo 27\\n")), ("f28.txt.txtpp", s("file 28\\n-TXTPP#run echo 28\\n")), ("f29.txt.txtpp", s("file 29\\n-TXTPP#run echo 29\\n")), ("f30.txt.txtpp", s("file 30\\n-TXTPP#run echo 30\\n")), ("f31.txt.txtpp", s("file 31\\n-TXTPP#run echo 31\\n")), ("f32.txt.txtpp", s("file 32\\n-TXTPP#run echo 32\\n")), ("f33.txt.txtpp", s("file 33\\n-TXTPP#run echo 33\\n")), ("f34.txt.txtpp", s("file 34\\n-TXTPP#run echo 34\\n")), ("f35.txt.txtpp", s("file 35\\n-TXTPP#run echo 35\\n")), ("f36.txt.txtpp", s("file 36\\n-TXTPP#run echo 36\\n")), ("f37.txt.txtpp", s("file 37\\n-TXTPP#run echo 37\\n")), ("f38.txt.txtpp", s("file 38\\n-TXTPP#run echo 38\\n")), ("f39.txt.txtpp", s("file 39\\n-TXTPP#run echo 39\\n")), ],
            inputs: vec!["."],
            recursive: false,
        },
        Scenario {
            name: "self_include_after_other_dep",
            files: vec![("a.txt.txtpp", s("-TXTPP#include b.txt\n-TXTPP#include a.txt\n")), ("b.txt.txtpp", s("b\n")), ("ok.txt.txtpp", s("fine\n"))],
            inputs: vec!["."],
            recursive: false,
        },
        // a command that prints more than a pipe holds (stdout, and stderr of a failing one): no deadlock, all of it is the output
        Scenario {
            name: "big_command_output",
            files: vec![("a.txt.txtpp", s("head\n-TXTPP#run head -c 200000 /dev/zero | tr '\\0' x; head -c 200000 /dev/zero | tr '\\0' e >&2\ntail\n"))],
            inputs: vec!["."],
            recursive: false,
        },
        Scenario {
            name: "big_stderr_failing_command",
            files: vec![("a.txt.txtpp", s("-TXTPP#run head -c 200000 /dev/zero | tr '\\0' e >&2; head -c 200000 /dev/zero | tr '\\0' x; exit 3\n")), ("ok.txt.txtpp", s("fine\n"))],
            inputs: vec!["."],
            recursive: false,
        },
        // every kind of directive output in a CRLF source, each without a final line break of its own
        Scenario {
            name: "crlf_directive_outputs",
            files: vec![
                ("a.txt.txtpp", s("first\r\n  -TXTPP#include nonl.txt\r\nafter include\r\n-TXTPP#run printf 'r1\\nr2'\r\nafter run\r\n  # TXTPP#write w1\r\n  # w2\r\nafter write\r\n// TXTPP#temp t.txt\r\n// c1\r\n// c2\r\n-TXTPP#include t.txt\r\nend\r\n")),
                ("nonl.txt", s("x\ny")),
            ],
            inputs: vec!["."],
            recursive: false,
        },
        // a directive whose output is the empty text still fills the tag that waits for it
        Scenario {
            name: "tag_empty_output",
            files: vec![
                ("a.txt.txtpp", s("-TXTPP#tag E1\n-TXTPP#include empty.txt\n[E1]\n-TXTPP#tag E2\n-TXTPP#run true\n<E2>\n-TXTPP#run echo next\nend\n")),
                ("empty.txt", s("")),
            ],
            inputs: vec!["."],
            recursive: false,
        },
        // a temp target that is an existing directory: build fails, clean still succeeds and leaves the directory alone
        Scenario {
            name: "temp_target_is_directory",
            files: vec![("a.txt.txtpp", s("-TXTPP#temp gen\n-content\nrest\n")), ("gen/keep.txt", s("k\n")), ("ok.txt.txtpp", s("fine\n"))],
            inputs: vec!["."],
            recursive: false,
        },
        // both spellings of a source for the same output (identical text): no cycle, everything built.  One worker only
        // (see cfg): with more, the two writers of b.txt race, and what the includer reads is not defined.
        Scenario {
            name: "two_sources_one_target",
            files: vec![("a.txt.txtpp", s("-TXTPP#include b.txt\nend\n")), ("b.txt.txtpp", s("B\n")), ("b.txtpp.txt", s("B\n"))],
            inputs: vec!["b.txtpp.txt", "a.txt"], // the spelling the include does NOT resolve to is scheduled first
            recursive: false,
        },
        // file names that are not UTF-8 (see scenario_raw_files): the output name keeps the bytes
        Scenario { name: "nonutf8_names", files: vec![("plain.txt.txtpp", s("p\n"))], inputs: vec!["."], recursive: false },
        // history only (see edited_files): a statically included file later gets a source of its own
        Scenario {
            name: "include_gains_source",
            files: vec![("a.txt.txtpp", s("head\n-TXTPP#include x.txt\n-TXTPP#after y.txt\n-TXTPP#run cat y.txt\ntail\n")), ("x.txt", s("OLD\n")), ("y.txt", s("OLDY\n"))],
            inputs: vec!["a.txt"],
            recursive: false,
        },
        Scenario { name: "missing_target", files: vec![("a.txt.txtpp", s("a\n"))], inputs: vec!["nothere.txt"], recursive: false },
    ]
}

// ------------------------------------------------------------------------------------------------ reference
fn is_txtpp_name(name: &str) -> bool {
    fn ext(n: &str) -> Option<&str> {
        let i = n.rfind('.')?;
        if i == 0 { None } else { Some(&n[i + 1..]) }
    }
    fn stem(n: &str) -> &str {
        match n.rfind('.') {
            Some(i) if i > 0 => &n[..i],
            _ => n,
        }
    }
    ext(name) == Some("txtpp") || (ext(name).is_some() && ext(stem(name)) == Some("txtpp"))
}

fn output_name_os(name: &std::ffi::OsStr) -> std::ffi::OsString {
    use std::os::unix::ffi::{OsStrExt, OsStringExt};
    let b = name.as_bytes();
    let i = b.iter().rposition(|c| *c == b'.').unwrap();
    let (st, e) = (&b[..i], &b[i + 1..]);
    let v = if e == b"txtpp" {
        st.to_vec()
    } else {
        let j = st.iter().rposition(|c| *c == b'.').unwrap();
        [&st[..j], &b"."[..], e].concat()
    };
    std::ffi::OsString::from_vec(v)
}

fn source_of(p: &Path) -> Option<PathBuf> {
    let name = p.file_name()?.to_str()?;
    if is_txtpp_name(name) {
        return None;
    }
    let dir = p.parent()?;
    let c1 = dir.join(format!("{name}.txtpp"));
    if c1.is_file() {
        return Some(c1);
    }
    if let Some(i) = name.rfind('.') {
        if i > 0 {
            let c2 = dir.join(format!("{}.txtpp.{}", &name[..i], &name[i + 1..]));
            if c2.is_file() {
                return Some(c2);
            }
        }
    }
    None
}

#[derive(Default)]
pub struct RefRun {
    pub generated: BTreeSet<PathBuf>, // outputs and temp files written (absolute, in the reference dir)
    pub outputs: BTreeSet<PathBuf>,
    pub gen_by_src: BTreeMap<PathBuf, BTreeSet<PathBuf>>,
    done: BTreeSet<PathBuf>,
    stack: Vec<PathBuf>,
    pub cycle: bool,
    pub failed: bool,
    /// the configured shell: program and its arguments; the command is appended as ONE argument
    pub shell: Vec<String>,
}

fn first_le(text: &str) -> &'static str {
    match text.find('\n') {
        Some(i) if i > 0 && text.as_bytes()[i - 1] == b'\r' => "\r\n",
        _ => "\n",
    }
}

fn lines_of(t: &str) -> Vec<String> {
    let mut out = vec![];
    let mut rest = t;
    while !rest.is_empty() {
        match rest.find('\n') {
            Some(i) => {
                let piece = &rest[..i];
                out.push(piece.strip_suffix('\r').unwrap_or(piece).to_string());
                rest = &rest[i + 1..];
            }
            None => {
                out.push(rest.to_string());
                rest = "";
            }
        }
    }
    out
}

fn fmt_out(ws: &str, raw: &str, le: &str) -> String {
    let mut o = lines_of(raw).iter().map(|l| format!("{ws}{l}")).collect::<Vec<_>>().join(le);
    if raw.ends_with('\n') {
        o.push_str(le);
    }
    o
}

struct DV {
    ws: String,
    prefix: String,
    dtype: String,
    args: Vec<String>,
}

fn detect(line: &str) -> Option<DV> {
    let chars: Vec<char> = line.chars().collect();
    let w = chars.iter().position(|c| !c.is_whitespace()).unwrap_or(chars.len());
    let ws: String = chars[..w].iter().collect();
    let rest: String = chars[w..].iter().collect();
    let h = rest.find("TXTPP#")?;
    let after = &rest[h + 6..];
    let (name, arg) = match after.find(' ') {
        Some(sp) => (&after[..sp], after[sp + 1..].trim_matches(char::is_whitespace)),
        None => (after, ""),
    };
    if !matches!(name, "" | "include" | "after" | "run" | "tag" | "temp" | "write") {
        return None;
    }
    Some(DV { ws, prefix: rest[..h].to_string(), dtype: name.to_string(), args: vec![arg.to_string()] })
}

fn cont(d: &DV, line: &str) -> Option<String> {
    if !matches!(d.dtype.as_str(), "" | "run" | "temp" | "write") {
        return None;
    }
    let rest = line.strip_prefix(d.ws.as_str())?;
    if rest == d.prefix.trim_end_matches(char::is_whitespace) {
        return Some(String::new());
    }
    if let Some(r) = rest.strip_prefix(d.prefix.as_str()) {
        return Some(r.trim_end_matches(char::is_whitespace).to_string());
    }
    rest.strip_prefix(" ".repeat(d.prefix.len()).as_str()).map(|r| r.trim_end_matches(char::is_whitespace).to_string())
}

fn inject(stored: &mut BTreeMap<String, String>, line: &str, le: &str) -> String {
    let mut first: BTreeMap<usize, String> = BTreeMap::new();
    for k in stored.keys() {
        if let Some(i) = line.find(k.as_str()) {
            first.entry(i).or_insert(k.clone());
        }
    }
    let mut out = String::new();
    let mut end = 0;
    for (i, k) in first {
        if i < end {
            continue;
        }
        out.push_str(&line[end..i]);
        let v = &stored[&k];
        let mut norm = lines_of(v).join(le);
        if v.ends_with('\n') {
            norm.push_str(le);
        }
        out.push_str(&norm);
        end = i + k.len();
        stored.remove(&k);
    }
    out.push_str(&line[end..]);
    out
}

impl RefRun {
    /// process one source in the reference directory (dependencies first); Err = this file fails
    pub fn process(&mut self, src: &Path, base: &Path, trailing_newline: bool) -> Result<(), ()> {
        let src = src.canonicalize().map_err(|_| ())?;
        if self.done.contains(&src) {
            return Ok(());
        }
        if self.stack.contains(&src) {
            self.cycle = true;
            return Err(());
        }
        self.stack.push(src.clone());
        let r = self.process_inner(&src, base, trailing_newline);
        self.stack.pop();
        if r.is_ok() {
            self.done.insert(src);
        }
        r
    }

    fn process_inner(&mut self, src: &Path, base: &Path, tn: bool) -> Result<(), ()> {
        let bytes = fs::read(src).map_err(|_| ())?;
        let text = String::from_utf8(bytes).map_err(|_| ())?;
        let le = first_le(&text);
        let dir = src.parent().unwrap().to_path_buf();
        let out_path = dir.join(output_name_os(src.file_name().unwrap()));
        let mut out = String::new();
        let mut pending = false;
        let mut cur: Option<DV> = None;
        let mut listening: Option<String> = None;
        let mut stored: BTreeMap<String, String> = BTreeMap::new();
        let mut lines: Vec<Option<String>> = lines_of(&text).into_iter().map(Some).collect();
        lines.push(None); // end of file
        let mut idx = 0;
        while idx < lines.len() {
            let line = lines[idx].clone();
            // what to execute / write for this step
            let mut exec: Option<(DV, bool)> = None;
            let mut reprocess = false;
            match (&mut cur, &line) {
                (None, None) => {}
                (Some(_), None) => exec = Some((cur.take().unwrap(), false)),
                (None, Some(l)) => match detect(l) {
                    Some(d) => {
                        if matches!(d.dtype.as_str(), "" | "run" | "temp" | "write") && d.prefix.is_empty() {
                            return Err(());
                        }
                        cur = Some(d);
                    }
                    None => {
                        let t = inject(&mut stored, l, le);
                        if pending {
                            out.push_str(le);
                        }
                        out.push_str(&t);
                        pending = true;
                    }
                },
                (Some(d), Some(l)) => match cont(d, l) {
                    Some(a) => d.args.push(a),
                    None => {
                        exec = Some((cur.take().unwrap(), true));
                        reprocess = true;
                    }
                },
            }
            if let Some((d, has_tail)) = exec {
                let raw: Option<String> = match d.dtype.as_str() {
                    "" => None,
                    "after" | "include" => {
                        let target = dir.join(&d.args[0]);
                        if let Some(dep) = source_of(&target) {
                            self.process(&dep, base, true_if(tn)).map_err(|_| ())?;
                        }
                        if d.dtype == "include" {
                            let b = fs::read(&target).map_err(|_| ())?;
                            Some(String::from_utf8(b).map_err(|_| ())?)
                        } else {
                            None
                        }
                    }
                    "run" => {
                        let cmd = d.args.join(" ");
                        let file = src.strip_prefix(base).map(|p| p.display().to_string()).unwrap_or(src.display().to_string());
                        let sh: Vec<String> = if self.shell.is_empty() { vec!["sh".into(), "-c".into()] } else { self.shell.clone() };
                        let o = std::process::Command::new(&sh[0]).args(&sh[1..]).arg(&cmd).current_dir(&dir).env("TXTPP_FILE", file).output().map_err(|_| ())?;
                        if !o.status.success() {
                            return Err(());
                        }
                        Some(String::from_utf8_lossy(&o.stdout).to_string())
                    }
                    "temp" => {
                        let t = &d.args[0];
                        if is_txtpp_name(Path::new(t).file_name().and_then(|n| n.to_str()).unwrap_or("")) {
                            return Err(());
                        }
                        let content = d.args[1..].join(le);
                        let tp = dir.join(t);
                        fs::write(&tp, content).map_err(|_| ())?;
                        let tc = tp.canonicalize().map_err(|_| ())?;
                        self.gen_by_src.entry(src.to_path_buf()).or_default().insert(tc.clone());
                        self.generated.insert(tc);
                        None
                    }
                    "tag" => {
                        let t = d.args[0].clone();
                        if listening.is_some() || stored.keys().any(|k| k.starts_with(&t) || t.starts_with(k.as_str())) {
                            return Err(());
                        }
                        listening = Some(t);
                        None
                    }
                    "write" => Some(d.args.join("\n")),
                    _ => unreachable!(),
                };
                if let Some(raw) = raw {
                    if let Some(t) = listening.take() {
                        stored.insert(t, raw);
                    } else {
                        if pending {
                            out.push_str(le);
                        }
                        out.push_str(&fmt_out(&d.ws, &raw, le));
                        pending = !has_tail;
                    }
                }
            }
            if !reprocess {
                idx += 1;
            }
        }
        if listening.is_some() || !stored.is_empty() {
            return Err(());
        }
        if pending && tn {
            out.push_str(le);
        }
        fs::write(&out_path, out).map_err(|_| ())?;
        let c = out_path.canonicalize().map_err(|_| ())?;
        self.generated.insert(c.clone());
        self.gen_by_src.entry(src.to_path_buf()).or_default().insert(c.clone());
        self.outputs.insert(c);
        Ok(())
    }
}

fn true_if(b: bool) -> bool {
    b
}

// ------------------------------------------------------------------------------------------------ driver
fn snapshot(root: &Path) -> BTreeMap<PathBuf, Vec<u8>> {
    fn walk(d: &Path, root: &Path, m: &mut BTreeMap<PathBuf, Vec<u8>>) {
        if let Ok(rd) = fs::read_dir(d) {
            for e in rd.flatten() {
                let p = e.path();
                if p.is_dir() {
                    walk(&p, root, m);
                } else {
                    m.insert(p.strip_prefix(root).unwrap().to_path_buf(), fs::read(&p).unwrap_or_default());
                }
            }
        }
    }
    let mut m = BTreeMap::new();
    walk(root, root, &mut m);
    m
}

/// symbolic links of a scenario: (link path, target relative to the link's directory)
fn scenario_links(name: &str) -> &'static [(&'static str, &'static str)] {
    match name {
        "symlinked_source_and_dir" => &[("scan/link.txt.txtpp", "../real/r.txt.txtpp"), ("scan/linkdir", "../shared/deep")],
        _ => &[],
    }
}

/// files of a scenario whose names are not UTF-8: (path bytes, content)
fn scenario_raw_files(name: &str) -> Vec<(Vec<u8>, Vec<u8>)> {
    match name {
        "nonutf8_names" => vec![(b"caf\xe9.txtpp.txt".to_vec(), s("c\n")), (b"n\xe9.md.txtpp".to_vec(), s("-TXTPP#run echo n\n")), (b"d\xe9cor.bin".to_vec(), s("keep\n"))],
        _ => vec![],
    }
}

fn materialize(root: &Path, sc: &Scenario) {
    let _ = fs::remove_dir_all(root);
    fs::create_dir_all(root).unwrap();
    for (p, c) in &sc.files {
        let fp = root.join(p);
        fs::create_dir_all(fp.parent().unwrap()).unwrap();
        fs::write(&fp, c).unwrap();
        if p.ends_with(".sh") {
            use std::os::unix::fs::PermissionsExt;
            fs::set_permissions(&fp, fs::Permissions::from_mode(0o755)).unwrap();
        }
    }
    for (n, c) in scenario_raw_files(sc.name) {
        use std::os::unix::ffi::OsStringExt;
        // a file system that refuses such names skips them, in the reference tree and in the real one alike
        let _ = fs::write(root.join(std::ffi::OsString::from_vec(n)), c);
    }
    for (l, t) in scenario_links(sc.name) {
        let lp = root.join(l);
        fs::create_dir_all(lp.parent().unwrap()).unwrap();
        std::os::unix::fs::symlink(t, lp).unwrap();
    }
}

fn cfg(root: &Path, sc: &Scenario, mode: Mode, threads: usize, tn: bool) -> Config {
    Config {
        base_dir: root.to_path_buf(),
        shell_cmd: if sc.name == "custom_shell_one_word" { root.join("probe.sh").display().to_string() } else { "".into() },
        inputs: sc.inputs.iter().map(|x| x.to_string()).collect(),
        recursive: sc.recursive,
        num_threads: if sc.name == "two_sources_one_target" { 1 } else { threads },
        mode,
        verbosity: Verbosity::Quiet,
        trailing_newline: tn,
    }
}

/// sources the run has to process: from the inputs (directories scanned, recursion), as the README prescribes
fn required_sources(root: &Path, sc: &Scenario) -> Result<Vec<PathBuf>, ()> {
    fn scan(d: &Path, rec: bool, out: &mut Vec<PathBuf>) {
        let mut es: Vec<PathBuf> = fs::read_dir(d).map(|r| r.flatten().map(|e| e.path()).collect()).unwrap_or_default();
        es.sort();
        for p in es {
            if p.is_file() {
                if is_txtpp_name(&p.file_name().unwrap().to_string_lossy()) {
                    out.push(p);
                }
            } else if p.is_dir() && rec {
                scan(&p, rec, out);
            }
        }
    }
    let mut v = vec![];
    for i in &sc.inputs {
        let p = root.join(i);
        if p.is_dir() {
            scan(&p, sc.recursive, &mut v);
        } else if is_txtpp_name(p.file_name().and_then(|n| n.to_str()).unwrap_or("")) {
            if !p.exists() {
                return Err(());
            }
            v.push(p);
        } else {
            v.push(source_of(&p).ok_or(())?);
        }
    }
    Ok(v)
}

pub struct Expect {
    pub ok: bool,
    pub cycle_only: bool,
    pub tree: BTreeMap<PathBuf, Vec<u8>>, // the whole reference tree after the build
    pub generated: BTreeSet<PathBuf>,     // relative
    pub outputs: BTreeSet<PathBuf>,
    pub cleaned: BTreeSet<PathBuf>, // generated by the sources named by the inputs (what clean removes)
}

pub fn reference(refroot: &Path, sc: &Scenario, tn: bool) -> Expect {
    materialize(refroot, sc);
    let base = refroot.canonicalize().unwrap();
    let mut rr = RefRun::default();
    if sc.name == "custom_shell_one_word" {
        rr.shell = vec![base.join("probe.sh").display().to_string()];
    }
    let mut ok = true;
    let mut other_failure = false;
    let mut cleaned_abs: BTreeSet<PathBuf> = BTreeSet::new();
    match required_sources(&base, sc) {
        Err(()) => {
            ok = false;
            other_failure = true;
        }
        Ok(srcs) => {
            for sfile in srcs {
                rr.cycle = false;
                if rr.process(&sfile, &base, tn).is_err() {
                    ok = false;
                    if !rr.cycle {
                        other_failure = true;
                    }
                }
                if let Some(g) = sfile.canonicalize().ok().and_then(|c| rr.gen_by_src.get(&c)) {
                    cleaned_abs.extend(g.iter().cloned());
                }
            }
        }
    }
    let rel = |s: &BTreeSet<PathBuf>| s.iter().map(|p| p.strip_prefix(&base).unwrap().to_path_buf()).collect::<BTreeSet<_>>();
    Expect { ok, cycle_only: !ok && !other_failure, tree: snapshot(&base), generated: rel(&rr.generated), outputs: rel(&rr.outputs), cleaned: rel(&cleaned_abs) }
}

pub struct SysReport {
    pub expected_err: Vec<String>,
    pub checked: u64,
    pub failures: Vec<String>,
    /// failures of the base phase (real build vs reference interpreter): (rendered without props, properties that
    /// certainly apply, properties the scenario was written for).  A scenario property is attributed only if EVERY
    /// failing base scenario was written for it (see run_all): a change that breaks everything is a C01 matter, a change
    /// that only breaks the scenarios about one feature is attributed to that feature's property.
    pub base_pending: Vec<(String, String, String, Vec<&'static str>, Vec<&'static str>)>,
}

/// properties a content mismatch of this scenario speaks about (besides C01)
fn scenario_props(name: &str) -> &'static [&'static str] {
    match name {
        "plain_lf" => &["C16"],
        "plain_crlf" => &["C12", "C16"],
        "no_final_newline" => &["C13", "C16"],
        "empty" => &["C13"],
        "long_first_line_crlf" => &["C12"],
        "include_static" => &["C12"],
        "run_echo" => &["C17"],
        "run_multiline_quotes" => &["C17", "C15"],
        "run_cwd_and_file" => &["C17"],
        "write_escape" => &["C16", "C15"],
        "write_crlf_col0" => &["C16", "C12"],
        "temp_files" | "temp_empty" | "temp_nonascii" | "temp_at_eof" => &["C12"],
        "temp_txtpp_target" => &["C10"],
        "tags" | "tags_overlap" | "tag_unused" | "tag_prefix_conflict" | "tag_while_listening" => &["C14"],
        "tags_crlf_values" => &["C14", "C12"],
        "prefixless_multiline" | "directive_lookalikes" => &["C15"],
        "directive_at_eof" | "include_at_eof_with_newline" | "include_then_silent" | "only_silent" => &["C13"],
        "chain" => &["C02", "C11"],
        "diamond_after" => &["C02", "C03"],
        "self_cycle" | "two_cycle_with_bystanders" | "self_cycle_with_chain" => &["C05"],
        "timed_partial_deps" => &["C02"],
        "run_invalid_utf8" => &["C17"],
        "missing_include" => &["C04"],
        "failing_command" => &["C04", "C17"],
        "names_and_decoys" => &["C11", "C10"],
        "recursive_and_aliases" => &["C11", "C03"],
        "missing_target" => &["C11", "C04"],
        "write_body_looks_like_temp" => &["C16", "C15", "C07"],
        "named_subdir" => &["C11"],
        "same_command_two_dirs" => &["C17"],
        "invalid_utf8_midfile" => &["C04"],
        "bom_first_line" => &["C16"],
        "temp_trailing_empty_lines" => &["C13"],
        "symlinked_source_and_dir" => &["C11", "C03"],
        "nonascii_prefix_continuation" => &["C15", "C18", "C03"],
        "dep_only_via_txtpp_ext" => &["C02", "C11", "C08"],
        "cycle_via_txtpp_ext" => &["C05", "C11"],
        "include_invalid_utf8" => &["C04"],
        "temp_outside_dir" => &["C07", "C10", "C11"], // its input is a named sub-directory
        "temp_in_missing_dir" => &["C10"],
        "tag_single_line_foreign_le" => &["C12", "C14"],
        "directive_names_are_case_sensitive" => &["C15", "C16"],
        "custom_shell_one_word" => &["C17"],
        "many_files_one_failing" => &["C04", "C18", "C03"],
        "self_include_after_other_dep" => &["C05"],
        "big_command_output" => &["C17", "C03", "C18"],
        "big_stderr_failing_command" => &["C04", "C03", "C18"],
        "crlf_directive_outputs" => &["C12"],
        "tag_empty_output" => &["C14"],
        "temp_target_is_directory" => &["C07", "C10"],
        "two_sources_one_target" => &["C05", "C11"],
        "nonutf8_names" => &["C10", "C11"],
        "include_gains_source" => &["C02"],
        _ => &[],
    }
}

fn scenario_files_json(sc: &Scenario) -> String {
    format!(
        "\"files\":{{{}}},\"inputs\":{:?},\"recursive\":{}",
        sc.files.iter().map(|(p, c)| format!("{}:{}", crate::jstr(p), crate::jstr(&String::from_utf8_lossy(&c[..c.len().min(400)])))).collect::<Vec<_>>().join(","),
        sc.inputs, sc.recursive
    )
}

impl SysReport {
    fn fail_base(&mut self, sc: &Scenario, phase: &str, detail: String, certain: &[&'static str], scenario_tags: &[&'static str]) {
        self.base_pending.push((format!("\"scenario\":{},\"phase\":{},{}", crate::jstr(sc.name), crate::jstr(phase), scenario_files_json(sc)),
            crate::jstr(&detail), sc.name.to_string(), certain.to_vec(), scenario_tags.to_vec()));
    }

    /// a failure rendered by a job: kept if one of its properties has fewer than two witnesses so far (over ALL jobs, so
    /// that hundreds of failing random projects cannot crowd out the one scenario that speaks about another property)
    fn merge_failure(&mut self, f: String) {
        let props: Vec<String> = f.split("\"props\":[").nth(1).and_then(|r| r.split(']').next()).map(|l| l.split(',').map(|x| x.to_string()).collect()).unwrap_or_default();
        if props.is_empty() || props.iter().any(|p| self.failures.iter().filter(|g| g.contains(p.as_str())).count() < 2) {
            self.failures.push(f);
        }
    }

    fn push_rendered(&mut self, input: &str, detail_json: &str, props: &[&str]) {
        let mut ps: Vec<&str> = props.to_vec();
        ps.sort();
        ps.dedup();
        let fresh = ps.iter().any(|p| self.failures.iter().filter(|f| f.contains(&format!("\"{p}\""))).count() < 2);
        if fresh {
            self.failures.push(format!(
                "{{\"fn\":\"Txtpp::run\",\"props\":[{}],\"input\":{{{}}},\"expected\":\"see phase\",\"actual\":{}}}",
                ps.iter().map(|p| format!("\"{p}\"")).collect::<Vec<_>>().join(","), input, detail_json
            ));
        }
    }

    fn fail(&mut self, sc: &Scenario, phase: &str, detail: String, props: &[&str]) {
        let mut ps: Vec<&str> = props.to_vec();
        ps.sort();
        ps.dedup();
        // keep at most 2 failures per property so that every property concerned has a witness
        let fresh = ps.iter().any(|p| self.failures.iter().filter(|f| f.contains(&format!("\"{p}\""))).count() < 2);
        if fresh {
            self.failures.push(format!(
                "{{\"fn\":\"Txtpp::run\",\"props\":[{}],\"input\":{{\"scenario\":{},\"phase\":{},\"files\":{{{}}},\"inputs\":{:?},\"recursive\":{}}},\"expected\":\"see phase\",\"actual\":{}}}",
                ps.iter().map(|p| format!("\"{p}\"")).collect::<Vec<_>>().join(","),
                crate::jstr(sc.name), crate::jstr(phase),
                sc.files.iter().map(|(p, c)| format!("{}:{}", crate::jstr(p), crate::jstr(&String::from_utf8_lossy(&c[..c.len().min(400)])))).collect::<Vec<_>>().join(","),
                sc.inputs, sc.recursive,
                crate::jstr(&detail)
            ));
        }
    }
}

fn run_real(c: Config) -> Result<bool, String> {
    // a hang (a worker died, the coordinator polls forever) is turned into a failure after a deadline
    let (tx, rx) = std::sync::mpsc::channel();
    std::thread::spawn(move || {
        let r = std::panic::catch_unwind(|| Txtpp::run(c).is_ok());
        let _ = tx.send(r);
    });
    match rx.recv_timeout(std::time::Duration::from_secs(20)) {
        Ok(Ok(b)) => Ok(b),
        Ok(Err(_)) => Err("PANIC in Txtpp::run".into()),
        Err(_) => Err("HANG: Txtpp::run did not return within 20 s".into()),
    }
}

type Tree = BTreeMap<PathBuf, Vec<u8>>;

/// which properties a difference between the expected and the actual tree speaks about, beyond the phase's own:
/// a non-generated path that changed or vanished, or a path that should not exist -> C10 (and C11 for a stray path);
/// a generated file differing only in line endings -> C12, only in its final line ending -> C13, otherwise -> C01
fn diff_props(exp: &Tree, got: &Tree, initial: &Tree, conforming_base: bool) -> Vec<&'static str> {
    let mut v = vec![];
    for (p, b) in exp {
        match got.get(p) {
            Some(g) if g == b => {}
            g => {
                if initial.contains_key(p) {
                    v.push("C10");
                } else if conforming_base {
                    match g {
                        None => v.push("C01"),
                        Some(g) => {
                            // equal once every CR is dropped: only line endings (CRLF vs LF, or a stray CR) differ
                            let norm = |x: &[u8]| String::from_utf8_lossy(x).replace('\r', "");
                            let strip = |x: &[u8]| {
                                let t = String::from_utf8_lossy(x).to_string();
                                t.strip_suffix("\r\n").or(t.strip_suffix('\n')).map(|r| r.to_string()).unwrap_or(t)
                            };
                            if norm(g) == norm(b) {
                                v.push("C12");
                            } else if strip(g) == strip(b) {
                                v.push("C13");
                            } else {
                                v.push("C01");
                            }
                        }
                    }
                }
            }
        }
    }
    for p in got.keys() {
        if !exp.contains_key(p) && p.file_name().map(|n| n != "count.log").unwrap_or(true) {
            v.push("C10");
            v.push("C11");
        }
    }
    v
}

fn diff_trees(exp: &Tree, got: &Tree, ignore: &dyn Fn(&Path) -> bool) -> Option<String> {
    for (p, b) in exp {
        if ignore(p) {
            continue;
        }
        match got.get(p) {
            None => return Some(format!("missing file {}", p.display())),
            Some(g) if g != b => return Some(format!("file {} differs: expected {:?} got {:?}", p.display(), String::from_utf8_lossy(b), String::from_utf8_lossy(g))),
            _ => {}
        }
    }
    for p in got.keys() {
        if !ignore(p) && !exp.contains_key(p) {
            return Some(format!("unexpected file {}", p.display()));
        }
    }
    None
}

pub fn run_all(work: &Path) -> SysReport {
    let scs = scenarios();
    let mut jobs: Vec<(usize, bool)> = (0..scs.len()).flat_map(|i| [(i, true), (i, false)]).collect();
    jobs.sort_by_key(|(i, _)| !scs[*i].name.starts_with("timed_")); // the slow ones first
    // random single-file projects: indices >= scs.len() (VERIF_SEED selects the sample)
    let seed: u64 = std::env::var("VERIF_SEED").ok().and_then(|v| v.parse().ok()).unwrap_or(0);
    let n_random: usize = if crate::deep() { 3000 } else { 300 };
    for k in 0..n_random {
        jobs.push((scs.len() + k, k % 2 == 0));
    }
    // random multi-file projects: indices >= scs.len() + n_random
    let n_multi: usize = if crate::deep() { 1500 } else { 150 };
    for k in 0..n_multi {
        jobs.push((scs.len() + n_random + k, k % 2 == 0));
    }
    let next = std::sync::atomic::AtomicUsize::new(0);
    let total = std::sync::Mutex::new(SysReport { expected_err: vec![], checked: 0, failures: vec![], base_pending: vec![] });
    std::thread::scope(|sp| {
        for _ in 0..16 {
            sp.spawn(|| loop {
                let k = next.fetch_add(1, std::sync::atomic::Ordering::SeqCst);
                if k >= jobs.len() {
                    break;
                }
                let (i, tn) = jobs[k];
                let r = if i >= scs.len() + n_random {
                    run_random_project(&work.join(format!("job{k}")), seed, (i - scs.len() - n_random) as u64, tn)
                } else if i >= scs.len() {
                    run_random(&work.join(format!("job{k}")), seed, (i - scs.len()) as u64, tn)
                } else {
                    run_one(&work.join(format!("job{k}")), &scs[i], tn)
                };
                let mut t = total.lock().unwrap();
                t.checked += r.checked;
                t.expected_err.extend(r.expected_err);
                for f in r.failures {
                    t.merge_failure(f);
                }
                t.base_pending.extend(r.base_pending);
            });
        }
    });
    let mut t = total.into_inner().unwrap();
    // scenario-specific properties: only those every failing base scenario was written for
    let pend = std::mem::take(&mut t.base_pending);
    let mut common: Option<BTreeSet<&'static str>> = None;
    for (_, _, _, _, tags) in &pend {
        let s: BTreeSet<&'static str> = tags.iter().cloned().collect();
        common = Some(match common {
            None => s,
            Some(c) => c.intersection(&s).cloned().collect(),
        });
    }
    let common: Vec<&'static str> = common.unwrap_or_default().into_iter().collect();
    for (input, detail_json, _name, certain, _) in &pend {
        let mut ps: Vec<&str> = certain.clone();
        ps.extend(common.iter().cloned());
        t.push_rendered(input, detail_json, &ps);
    }
    late_activity_check(work, &mut t);
    t
}

// ---- random single-file projects (base phase only): lines drawn from an alphabet of directive and text shapes
fn xorshift(state: &mut u64) -> u64 {
    let mut x = *state;
    x ^= x << 13;
    x ^= x >> 7;
    x ^= x << 17;
    *state = x;
    x
}

const LINE_ALPHABET: [&str; 31] = [
    "", "text", "  indented text", "T1 and T2 here", "trailing space ", "T2T1",
    "-TXTPP#run echo r1; echo r2", "-TXTPP#run printf 'no-nl'", "  # TXTPP#run echo ind",
    "-TXTPP#write w1", "-w2", "-", "  # more", "  #",
    "// TXTPP#temp t.txt", "// c1", "//",
    "-TXTPP#tag T1", "+TXTPP#tag T2",
    "-TXTPP#include inc.txt", "  -TXTPP#include inc_nonl.txt",
    "-TXTPP#", "-TXTPP# comment", "TXTPP#write bare", "x TXTPP#unknown y", "\tTXTPP#after inc.txt",
    "-TXTPP#include one_crlf.txt", "-TXTPP#Run echo no", "\u{bb} TXTPP#write na", "\u{bb} nb", "  ",
];

pub fn random_source(seed: u64, k: u64) -> Vec<u8> {
    let mut st = seed.wrapping_mul(0x9E3779B97F4A7C15).wrapping_add(k.wrapping_mul(0xD1B54A32D192ED03)) | 1;
    for _ in 0..4 {
        xorshift(&mut st);
    }
    let n = 1 + xorshift(&mut st) % 8;
    let style = xorshift(&mut st) % 10; // 0-5 LF, 6-8 CRLF, 9 mixed
    let final_nl = xorshift(&mut st) % 5 != 0;
    let mut out = String::new();
    for i in 0..n {
        let l = LINE_ALPHABET[(xorshift(&mut st) % LINE_ALPHABET.len() as u64) as usize];
        out.push_str(l);
        if i + 1 < n || final_nl {
            let crlf = match style {
                0..=5 => false,
                6..=8 => true,
                _ => xorshift(&mut st) % 2 == 0,
            };
            out.push_str(if crlf { "\r\n" } else { "\n" });
        }
    }
    out.into_bytes()
}

fn leak(x: String) -> &'static str {
    Box::leak(x.into_boxed_str())
}

/// a random multi-file project: 1-4 sources in two directories with the three source-name spellings, includes / afters
/// of each other's outputs (forward references only, so it is acyclic, except in 1 of 16 projects), static includes,
/// commands that print their directory and TXTPP_FILE, temp files, tags, write
pub fn random_project(seed: u64, k: u64) -> Scenario {
    let mut st = seed.wrapping_mul(0xA0761D6478BD642F).wrapping_add(k.wrapping_mul(0xE7037ED1A0B428DB)) | 1;
    for _ in 0..4 {
        xorshift(&mut st);
    }
    // (source path, output path)
    let pool: [(&str, &str); 5] = [("a.txt.txtpp", "a.txt"), ("b.txtpp.txt", "b.txt"), ("c.txtpp", "c"), ("sub/d.md.txtpp", "sub/d.md"), ("sub/e.txtpp.md", "sub/e.md")];
    let n = 1 + (xorshift(&mut st) % 4) as usize;
    let start = (xorshift(&mut st) % 5) as usize;
    let chosen: Vec<(&str, &str)> = (0..n).map(|i| pool[(start + i) % 5]).collect();
    let any_order = xorshift(&mut st) % 16 == 0;
    let rel = |from_src: &str, to: &str| -> String {
        // path of `to` (relative to the root) as seen from the directory of `from_src`
        if from_src.starts_with("sub/") {
            if let Some(r) = to.strip_prefix("sub/") { r.to_string() } else { format!("../{to}") }
        } else {
            to.to_string()
        }
    };
    let mut files: Vec<(&'static str, Vec<u8>)> = vec![
        ("inc.txt", s("i1\r\ni2\n")),
        ("sub/keep.txt", s("k\n")),
        ("gen/keep.txt", s("k\n")),
        ("here.txt", s("ROOT\n")),
        ("sub/here.txt", s("SUB\n")),
    ];
    for (i, (src, _)) in chosen.iter().enumerate() {
        let crlf = xorshift(&mut st) % 4 == 0;
        let nl = if crlf { "\r\n" } else { "\n" };
        let nlines = 1 + xorshift(&mut st) % 6;
        let mut text = String::new();
        for li in 0..nlines {
            let line: String = match xorshift(&mut st) % 14 {
                0 => format!("text {i}.{li}"),
                1 => "  indented".to_string(),
                2 => {
                    // include / after of another generated file
                    let cands: Vec<usize> = (0..n).filter(|j| if any_order { true } else { *j > i }).collect();
                    if cands.is_empty() {
                        "plain".to_string()
                    } else {
                        let j = cands[(xorshift(&mut st) % cands.len() as u64) as usize];
                        let kind = if xorshift(&mut st) % 3 == 0 { "after" } else { "include" };
                        format!("-TXTPP#{kind} {}", rel(src, chosen[j].1))
                    }
                }
                3 => format!("  -TXTPP#include {}", rel(src, "inc.txt")),
                4 => "-TXTPP#run cat here.txt; echo $TXTPP_FILE".to_string(),
                5 => "+TXTPP#run printf 'no-nl'".to_string(),
                6 => format!("// TXTPP#temp t{i}.txt{nl}// c1{nl}//"),
                7 => format!("# TXTPP#temp {}{nl}# x", rel(src, &format!("gen/g{i}.txt"))),
                8 => format!("-TXTPP#write w{i}{nl}-w2"),
                9 => format!("-TXTPP#tag T{i}{nl}+TXTPP#write v{i}{nl}<T{i}>"),
                10 => "".to_string(),
                11 => "-TXTPP# note".to_string(),
                12 => "  # TXTPP#run echo ind; echo ind2".to_string(),
                _ => "tail text".to_string(),
            };
            text.push_str(&line);
            if li + 1 < nlines || xorshift(&mut st) % 6 != 0 {
                text.push_str(nl);
            }
        }
        files.push((leak(src.to_string()), text.into_bytes()));
    }
    let by_name = xorshift(&mut st) % 3 == 0;
    Scenario {
        name: "random_project",
        files,
        inputs: if by_name { vec![leak(chosen[0].1.to_string())] } else { vec!["."] },
        recursive: !by_name,
    }
}

/// base phase (real Build vs reference), then verify, then clean, on a random multi-file project
fn run_random_project(work: &Path, seed: u64, k: u64, tn: bool) -> SysReport {
    let mut rep = SysReport { expected_err: vec![], checked: 1, failures: vec![], base_pending: vec![] };
    let sc = random_project(seed, k);
    let refroot = work.join("ref");
    let root = work.join("real");
    let exp = reference(&refroot, &sc, tn);
    if !exp.ok {
        rep.expected_err.push("random".to_string());
    }
    materialize(&root, &sc);
    let initial = snapshot(&root);
    let phase = format!("random multi-file project #{k} of seed {seed}: Build tn={tn}, fresh tree, 1 thread, compared with the reference interpreter");
    let r = run_real(cfg(&root, &sc, Mode::Build, 1, tn));
    let built = snapshot(&root);
    match &r {
        Err(e) => rep.fail(&sc, &phase, e.clone(), &["C18", "C03"]),
        Ok(v) => {
            if *v != exp.ok {
                rep.fail(&sc, &phase, format!("verdict ok={} but the semantics prescribe ok={}", v, exp.ok), if *v { &["C04"] } else { &["C01"] });
            } else if exp.ok {
                if let Some(d) = diff_trees(&exp.tree, &built, &|_| false) {
                    let mut p: Vec<&'static str> = vec!["C01"];
                    for x in diff_props(&exp.tree, &built, &initial, true) {
                        if x != "C01" {
                            p.push(x);
                        }
                    }
                    rep.fail(&sc, &phase, d, &p);
                } else {
                    // 4 threads give the same tree
                    rep.checked += 1;
                    materialize(&root, &sc);
                    let r4 = run_real(cfg(&root, &sc, Mode::Build, 4, tn));
                    if r4 != Ok(true) {
                        rep.fail(&sc, &format!("random multi-file project #{k} of seed {seed}: Build with 4 threads"), format!("{r4:?} but 1 thread succeeds"), &["C02", "C03"]);
                    } else if let Some(d) = diff_trees(&built, &snapshot(&root), &|_| false) {
                        rep.fail(&sc, &format!("random multi-file project #{k} of seed {seed}: Build with 4 threads compared with 1 thread"), d, &["C02"]);
                    }
                    // verify accepts the built tree and changes nothing
                    rep.checked += 1;
                    let rv = run_real(cfg(&root, &sc, Mode::Verify, 2, tn));
                    if rv != Ok(true) {
                        rep.fail(&sc, &format!("random multi-file project #{k} of seed {seed}: Verify right after Build"), format!("{rv:?} but the outputs are up to date"), &["C06"]);
                    }
                    if let Some(d) = diff_trees(&built, &snapshot(&root), &|_| false) {
                        rep.fail(&sc, &format!("random multi-file project #{k} of seed {seed}: Verify"), format!("verify changed the tree: {d}"), &["C06", "C10"]);
                    }
                    // a project scanned from its root: clean restores the initial tree
                    if sc.recursive {
                        rep.checked += 1;
                        let rc = run_real(cfg(&root, &sc, Mode::Clean, 2, tn));
                        if rc != Ok(true) {
                            rep.fail(&sc, &format!("random multi-file project #{k} of seed {seed}: Clean after Build"), format!("{rc:?}"), &["C07"]);
                        } else if let Some(d) = diff_trees(&initial, &snapshot(&root), &|_| false) {
                            rep.fail(&sc, &format!("random multi-file project #{k} of seed {seed}: Clean after Build"), format!("the tree is not what it was before the build: {d}"), &["C07", "C10"]);
                        }
                    }
                }
            }
        }
    }
    let _ = fs::remove_dir_all(work);
    rep
}

fn run_random(work: &Path, seed: u64, k: u64, tn: bool) -> SysReport {
    let mut rep = SysReport { expected_err: vec![], checked: 1, failures: vec![], base_pending: vec![] };
    let sc = Scenario {
        name: "random_single_file",
        files: vec![("a.txt.txtpp", random_source(seed, k)), ("inc.txt", s("i1\r\ni2\n")), ("inc_nonl.txt", s("n1\nn2")), ("one_crlf.txt", s("single\r\n"))],
        inputs: vec!["."],
        recursive: false,
    };
    let refroot = work.join("ref");
    let root = work.join("real");
    let exp = reference(&refroot, &sc, tn);
    if !exp.ok {
        rep.expected_err.push("random".to_string());
    }
    materialize(&root, &sc);
    let initial = snapshot(&root);
    let phase = format!("random project #{k} of seed {seed}: Build tn={tn}, fresh tree, 1 thread, compared with the reference interpreter");
    match run_real(cfg(&root, &sc, Mode::Build, 1, tn)) {
        Err(e) => rep.fail(&sc, &phase, e, &["C18", "C03"]),
        Ok(v) => {
            if v != exp.ok {
                rep.fail(&sc, &phase, format!("verdict ok={} but the semantics prescribe ok={}", v, exp.ok), if v { &["C04"] } else { &["C01"] });
            } else if exp.ok {
                let got = snapshot(&root);
                if let Some(d) = diff_trees(&exp.tree, &got, &|_| false) {
                    let mut p: Vec<&'static str> = vec!["C01"];
                    for x in diff_props(&exp.tree, &got, &initial, true) {
                        if x != "C01" {
                            p.push(x);
                        }
                    }
                    rep.fail(&sc, &phase, d, &p);
                }
            }
        }
    }
    let _ = fs::remove_dir_all(work);
    rep
}

pub static PANICS: std::sync::atomic::AtomicUsize = std::sync::atomic::AtomicUsize::new(0);

/// after Txtpp::run has returned (here: with an error while other workers are still busy) nothing of txtpp may still be
/// running: no thread panics later, and the tree does not change any more.  Run serially (process-wide panic counter).
fn late_activity_check(work: &Path, rep: &mut SysReport) {
    let sc = Scenario {
        name: "error_while_others_busy",
        files: vec![
            ("bad.txt.txtpp", s("-TXTPP#include nope.txt\n")),
            ("s1.txt.txtpp", s("-TXTPP#run sleep 0.6; echo done\n")),
            ("s2.txt.txtpp", s("-TXTPP#run sleep 0.6; echo done\n")),
            ("s3.txt.txtpp", s("-TXTPP#run sleep 0.6; echo done\n")),
        ],
        inputs: vec!["."],
        recursive: false,
    };
    let root = work.join("late");
    for (mode, threads) in [(Mode::Build, 4usize), (Mode::InMemoryBuild, 8)] {
        rep.checked += 1;
        materialize(&root, &sc);
        let before = PANICS.load(std::sync::atomic::Ordering::SeqCst);
        let r = run_real(cfg(&root, &sc, mode.clone(), threads, true));
        let at_return = snapshot(&root);
        std::thread::sleep(std::time::Duration::from_millis(1500));
        let later = snapshot(&root);
        let after = PANICS.load(std::sync::atomic::Ordering::SeqCst);
        let phase = format!("{:?} threads={} returns, then 1.5 s of observation", mode, threads);
        if r != Ok(false) {
            rep.fail(&sc, &phase, format!("{r:?} but one source includes a missing file"), &["C04"]);
        }
        if after != before {
            rep.fail(&sc, &phase, format!("{} thread panic(s) during or after the run", after - before), &["C18"]);
        }
        if let Some(d) = diff_trees(&at_return, &later, &|_| false) {
            rep.fail(&sc, &phase, format!("txtpp kept changing the tree after Txtpp::run had returned: {d}"), &["C18", "C03"]);
        }
    }
    let _ = fs::remove_dir_all(&root);
}

const ALL_PRESTATES: [&str; 5] = ["absent", "garbage_non_utf8", "longer_tail", "other_line_ending", "prefix"];

fn prestate(kind: &str, e: &[u8]) -> Option<Vec<u8>> {
    match kind {
        "absent" => None,
        "garbage_non_utf8" => Some(vec![0xff, 0xfe, b'x', 0xc3]),
        "longer_tail" => {
            let mut v = e.to_vec();
            v.extend_from_slice(b"STALE TAIL\n");
            Some(v)
        }
        "other_line_ending" => {
            let t = String::from_utf8_lossy(e).to_string();
            Some(if t.contains("\r\n") { t.replace("\r\n", "\n") } else { t.replace('\n', "\r\n") }.into_bytes())
        }
        _ => Some(e[..e.len() / 2].to_vec()),
    }
}

fn run_one(work: &Path, sc: &Scenario, tn: bool) -> SysReport {
    let mut rep = SysReport { expected_err: vec![], checked: 0, failures: vec![], base_pending: vec![] };
    let refroot = work.join("ref");
    let root = work.join("real");
    let sprops = scenario_props(sc.name);
    let exp = reference(&refroot, sc, tn);
    // the tree before txtpp runs (through symbolic links too: a linked source is seen under both names)
    materialize(&root, sc);
    let initial: Tree = snapshot(&root);
    let is_log = |p: &Path| p.file_name().map(|n| n == "count.log").unwrap_or(false);
    let never = |_: &Path| false;
    let is_cycle = exp.cycle_only;
    if !exp.ok && tn {
        rep.expected_err.push(sc.name.to_string());
    }

    // ---- phase A0: the base run (Build, fresh tree, 1 thread) against the reference interpreter
    rep.checked += 1;
    materialize(&root, sc);
    let base_phase = format!("Build tn={tn} fresh tree, 1 thread, compared with the reference interpreter of the documented semantics");
    let base = run_real(cfg(&root, sc, Mode::Build, 1, tn));
    let base_tree = snapshot(&root);
    match &base {
        Err(e) => {
            let mut p = vec!["C18", "C03"];
            if is_cycle {
                p.push("C05");
            }
            rep.fail(sc, &base_phase, e.clone(), &p);
            return rep;
        }
        Ok(v) => {
            if *v != exp.ok {
                // a wrong verdict: false success is a C04 matter, a spurious failure a C01 matter
                rep.fail_base(sc, &base_phase, format!("verdict ok={} but the semantics prescribe ok={}", v, exp.ok), if *v { &["C04"] } else { &["C01"] }, sprops);
            } else if exp.ok {
                if let Some(d) = diff_trees(&exp.tree, &base_tree, &never) {
                    // the tree differs from what the semantics prescribe: C01, plus what the difference itself says
                    // (a source or decoy touched, a stray path, only line endings, only the final terminator)
                    let mut p: Vec<&'static str> = vec!["C01"];
                    for x in diff_props(&exp.tree, &base_tree, &initial, true) {
                        if x != "C01" {
                            p.push(x);
                        }
                    }
                    rep.fail_base(sc, &base_phase, d, &p, sprops);
                }
            } else {
                for (p, b) in &initial {
                    if base_tree.get(p) != Some(b) {
                        rep.fail(sc, &base_phase, format!("non-generated file {} was modified or deleted by a failing run", p.display()), &["C10"]);
                    }
                }
                if is_cycle {
                    for o in &exp.outputs {
                        if base_tree.get(o) != exp.tree.get(o) {
                            rep.fail(sc, &base_phase, format!("file {} cannot reach the cycle but was not built correctly", o.display()), &["C05"]);
                        }
                    }
                }
            }
        }
    }
    let base_ok = base == Ok(true);
    let base_conforms = exp.ok && base_ok && diff_trees(&exp.tree, &base_tree, &never).is_none();
    // generated paths as the REAL build made them (the metamorphic phases compare real runs with real runs)
    let real_generated: BTreeSet<PathBuf> = base_tree.keys().filter(|p| !initial.contains_key(*p) && !is_log(p)).cloned().collect();

    // ---- phase A1: other thread counts, pre-states of the generated paths, --needed: same verdict and tree as the base run
    for mode in [Mode::Build, Mode::InMemoryBuild] {
        for pname in ALL_PRESTATES {
            let tcs: Vec<usize> = if crate::deep() { vec![1, 2, 4, 8, 16] } else { vec![1, 4] };
            for threads in tcs {
                let timed = sc.name.starts_with("timed_");
                if !crate::deep() && ((threads == 4 && pname != "absent" && !timed) || (threads == 1 && pname != "absent" && timed)) {
                    continue;
                }
                if crate::deep() && pname != "absent" && !(threads == 1 || threads == 4) {
                    continue;
                }
                if matches!(mode, Mode::Build) && pname == "absent" && threads == 1 {
                    continue;
                }
                if pname != "absent" && !base_ok {
                    continue;
                }
                rep.checked += 1;
                materialize(&root, sc);
                for g in &real_generated {
                    if let Some(b) = prestate(pname, &base_tree[g]) {
                        let fp = root.join(g);
                        fs::create_dir_all(fp.parent().unwrap()).unwrap();
                        fs::write(fp, b).unwrap();
                    }
                }
                let phase = format!("{:?} tn={} prestate-of-generated-files={} threads={}, compared with the real Build from a fresh tree with 1 thread", mode, tn, pname, threads);
                let mut p: Vec<&str> = vec![];
                if matches!(mode, Mode::InMemoryBuild) {
                    p.push("C09");
                }
                if pname != "absent" {
                    p.push("C08");
                }
                if threads != 1 {
                    p.push("C02");
                    if pname == "absent" {
                        p.push("C03");
                    }
                }
                match run_real(cfg(&root, sc, mode.clone(), threads, tn)) {
                    Err(e) => {
                        p.push("C18");
                        p.push("C03");
                        rep.fail(sc, &phase, e, &p)
                    }
                    Ok(v) => {
                        if Ok(v) != base {
                            if base_conforms {
                                p.push("C01");
                            }
                            rep.fail(sc, &phase, format!("verdict ok={} but the base build gave {:?}", v, base), &p);
                        } else if v {
                            let now = snapshot(&root);
                            if let Some(d) = diff_trees(&base_tree, &now, &never) {
                                for x in diff_props(&base_tree, &now, &initial, base_conforms) {
                                    p.push(x);
                                }
                                rep.fail(sc, &phase, d, &p);
                            }
                        }
                    }
                }
            }
        }
    }
    if !base_ok || sc.name.starts_with("timed_") {
        return clean_without_build(rep, &root, sc, tn);
    }
    // ---- phase B: verify on the tree the real build made; tampering
    materialize(&root, sc);
    let _ = run_real(cfg(&root, sc, Mode::Build, 2, tn));
    let built = snapshot(&root);
    let real_outputs: Vec<PathBuf> = real_generated.iter().filter(|g| exp.outputs.contains(*g) || !exp.generated.contains(*g)).cloned().collect();
    rep.checked += 1;
    match run_real(cfg(&root, sc, Mode::Verify, 2, tn)) {
        Ok(true) => {}
        other => rep.fail(sc, &format!("Verify tn={tn} right after Build"), format!("{other:?} but the outputs are up to date"), &["C06"]),
    }
    if let Some(d) = diff_trees(&built, &snapshot(&root), &is_log) {
        rep.fail(sc, &format!("Verify tn={tn}"), format!("verify changed the tree: {d}"), &["C06", "C10"]);
    }
    for o in &real_outputs {
        let orig = built[o].clone();
        let mut tampers: Vec<(&str, Option<Vec<u8>>)> = vec![("delete", None), ("append", Some([orig.clone(), b"X".to_vec()].concat()))];
        if !orig.is_empty() {
            tampers.push(("truncate", Some(orig[..orig.len() - 1].to_vec())));
            let mut f = orig.clone();
            f[0] ^= 0x01;
            tampers.push(("flip_first", Some(f)));
            let mut l = orig.clone();
            let n = l.len() - 1;
            l[n] ^= 0x01;
            tampers.push(("flip_last", Some(l)));
        }
        if let Some(pos) = orig.windows(3).position(|w| w == [0xEF, 0xBF, 0xBD]) {
            let mut f = orig.clone();
            f[pos] = 0xF0;
            tampers.push(("fffd_lead", Some(f)));
        }
        for (tname, t) in tampers {
            rep.checked += 1;
            match &t {
                None => {
                    let _ = fs::remove_file(root.join(o));
                }
                Some(b) => fs::write(root.join(o), b).unwrap(),
            }
            match run_real(cfg(&root, sc, Mode::Verify, 2, tn)) {
                Ok(false) => {}
                other => rep.fail(sc, &format!("Verify tn={tn} tamper={tname} file={}", o.display()), format!("{other:?} but the output was tampered with"), &["C06", "C04"]),
            }
            // verify never repairs
            let now = fs::read(root.join(o)).ok();
            if now != t {
                rep.fail(sc, &format!("Verify tn={tn} tamper={tname}"), "verify modified an output".into(), &["C06", "C10"]);
            }
            fs::write(root.join(o), &orig).unwrap();
        }
    }
    // verify with the other trailing-newline option fails exactly when the real build with that option differs
    {
        let other_root = work.join("other");
        materialize(&other_root, sc);
        let o_ok = run_real(cfg(&other_root, sc, Mode::Build, 2, !tn));
        let o_tree = snapshot(&other_root);
        let _ = fs::remove_dir_all(&other_root);
        if o_ok == Ok(true) {
            // C13: the option controls one final line ending of the outputs and nothing else (temp files never change)
            rep.checked += 1;
            for g in &real_generated {
                let (a, b) = (built.get(g), o_tree.get(g));
                let same_but_last_le = |x: &Vec<u8>, y: &Vec<u8>| {
                    let (long, short) = if x.len() >= y.len() { (x, y) } else { (y, x) };
                    long == short || (long.starts_with(short) && (&long[short.len()..] == b"\n" || &long[short.len()..] == b"\r\n"))
                };
                let single_source = sc.files.iter().filter(|(p, _)| is_txtpp_name(Path::new(p).file_name().and_then(|n| n.to_str()).unwrap_or(""))).count() == 1;
                let ok = match (a, b) {
                    // an output of a project with one source (no included outputs whose own final line ending matters)
                    (Some(x), Some(y)) if exp.outputs.contains(g) => !single_source || same_but_last_le(x, y),
                    // a temp file (known as such to the reference)
                    (Some(x), Some(y)) if exp.generated.contains(g) => x == y,
                    _ => true,
                };
                if !ok {
                    rep.fail(sc, &format!("Build with trailing_newline={tn} compared with the real build with {}", !tn),
                        format!("{}: {:?} vs {:?}", g.display(), a.map(|v| String::from_utf8_lossy(v).to_string()), b.map(|v| String::from_utf8_lossy(v).to_string())), &["C13"]);
                }
            }
            rep.checked += 1;
            let differs = diff_trees(&o_tree, &built, &is_log).is_some();
            match run_real(cfg(&root, sc, Mode::Verify, 2, !tn)) {
                Ok(v) if v == !differs => {}
                other => rep.fail(sc, &format!("Verify with trailing_newline={} on outputs built with {}", !tn, tn), format!("{other:?} although a real build with that option {} from the tree", if differs { "differs" } else { "does not differ" }), &["C06"]),
            }
        }
    }
    // ---- phase C: --needed, a plain rebuild and verify leave up-to-date generated files alone (inode, mtime)
    for mode in [Mode::InMemoryBuild, Mode::Build, Mode::Verify] {
        rep.checked += 1;
        let old = std::time::SystemTime::UNIX_EPOCH + std::time::Duration::from_secs(1_000_000_000);
        let mut stamps = BTreeMap::new();
        for g in &real_generated {
            let fp = root.join(g);
            let is_output = real_outputs.contains(g);
            if is_output && matches!(mode, Mode::Build) {
                continue; // a normal build rewrites outputs
            }
            let Ok(f) = fs::OpenOptions::new().write(true).open(&fp) else {
                rep.fail(sc, &format!("before {:?} tn={} on the up-to-date tree", mode, tn), format!("{} is gone: an earlier (failing) run deleted a generated file", g.display()), &["C10", "C06"]);
                continue;
            };
            let _ = f.set_modified(old);
            drop(f);
            let Ok(m) = fs::metadata(&fp) else { continue };
            stamps.insert(g.clone(), (m.ino(), m.mtime(), m.mtime_nsec()));
        }
        let props: &[&str] = match mode {
            Mode::Verify => &["C06", "C10"],
            _ => &["C09"],
        };
        let phase = format!("{:?} tn={} on the up-to-date tree a real build left", mode, tn);
        let r = run_real(cfg(&root, sc, mode.clone(), 2, tn));
        if r != Ok(true) {
            rep.fail(sc, &phase, format!("{r:?}"), if matches!(mode, Mode::Build) { &["C08"] } else { props });
        }
        for (g, st) in &stamps {
            match fs::metadata(root.join(g)) {
                Ok(m) if (m.ino(), m.mtime(), m.mtime_nsec()) == *st => {}
                _ => rep.fail(sc, &phase, format!("{} was rewritten (inode or mtime changed) although its content was already correct", g.display()), props),
            }
        }
        if let Some(d) = diff_trees(&built, &snapshot(&root), &is_log) {
            rep.fail(sc, &phase, d, if matches!(mode, Mode::Build) { &["C08"] } else { props });
        }
    }
    // ---- phase D: clean removes exactly what the sources named by the inputs generated; twice
    let noninput_generated: BTreeSet<PathBuf> = exp.generated.difference(&exp.cleaned).cloned().collect();
    for round in 0..2 {
        rep.checked += 1;
        let r = run_real(cfg(&root, sc, Mode::Clean, 2, tn));
        if r != Ok(true) {
            rep.fail(sc, &format!("Clean round {round}"), format!("{r:?}"), &["C07"]);
        }
        let mut want = built.clone();
        for g in &real_generated {
            if !noninput_generated.contains(g) {
                want.remove(g);
            }
        }
        if let Some(d) = diff_trees(&want, &snapshot(&root), &is_log) {
            rep.fail(sc, &format!("Clean round {round} after a real build"), d, &["C07", "C10"]);
        }
    }
    edit_history(&mut rep, work, sc, tn);
    clean_without_build(rep, &root, sc, tn)
}

/// sources as edited AFTER a first build (history: build, edit, then verify / build / needed build)
fn edited_files(name: &str) -> Option<Vec<(&'static str, Vec<u8>)>> {
    match name {
        "plain_lf" => Some(vec![("a.txt.txtpp", s("one\nTWO edited\n  three\n"))]),
        "temp_files" => Some(vec![("a.txt.txtpp", s("// TXTPP#temp t1.txt\n// line1 EDITED\n//\n//   line3\nmid\n-TXTPP#temp sub/t2.txt\n+TXTPP#include t1.txt\nend\n"))]),
        "chain" => Some(vec![("c.txtpp", s("C1 edited\nC2"))]),
        "run_echo" => Some(vec![("a.txt.txtpp", s("x\n  # TXTPP#run echo 1; echo CHANGED\ny\n-TXTPP#run printf 'p q'\nz\n"))]),
        // the included / awaited files get sources: from now on they are dependencies, built before they are read
        "include_gains_source" => Some(vec![("x.txt.txtpp", s("NEW\n-TXTPP#run echo generated\n")), ("y.txtpp.txt", s("NEWY\n"))]),
        _ => None,
    }
}

/// phase E: build, edit the sources, then: verify must fail (the outputs are stale), a build and a needed build must
/// give exactly what a fresh build of the edited sources gives
fn edit_history(rep: &mut SysReport, work: &Path, sc: &Scenario, tn: bool) {
    let Some(edits) = edited_files(sc.name) else { return };
    let root = work.join("real");
    let edited = Scenario {
        name: sc.name,
        files: sc.files.iter().map(|(p, c)| (*p, edits.iter().find(|(q, _)| q == p).map(|(_, e)| e.clone()).unwrap_or(c.clone())))
            .chain(edits.iter().filter(|(q, _)| !sc.files.iter().any(|(p, _)| p == q)).cloned()) // files the edit adds
            .collect(),
        inputs: sc.inputs.clone(),
        recursive: sc.recursive,
    };
    // what a fresh REAL build of the edited sources gives
    let fresh_root = work.join("fresh");
    materialize(&fresh_root, &edited);
    let fresh_ok = run_real(cfg(&fresh_root, &edited, Mode::Build, 1, tn));
    let fresh_tree = snapshot(&fresh_root);
    let _ = fs::remove_dir_all(&fresh_root);
    if fresh_ok != Ok(true) {
        return;
    }
    for mode in [Mode::Verify, Mode::Build, Mode::InMemoryBuild] {
        rep.checked += 1;
        materialize(&root, sc);
        let _ = run_real(cfg(&root, sc, Mode::Build, 2, tn));
        let old_tree = snapshot(&root);
        for (p, c) in &edits {
            fs::write(root.join(p), c).unwrap();
        }
        let phase = format!("history: Build, edit {:?}, then {:?} (tn={tn})", edits.iter().map(|(p, _)| *p).collect::<Vec<_>>(), mode);
        let r = run_real(cfg(&root, &edited, mode.clone(), 2, tn));
        match mode {
            Mode::Verify => {
                let mut with_edit = old_tree.clone();
                for (p, c) in &edits {
                    with_edit.insert(PathBuf::from(p), c.clone());
                }
                let stale = diff_trees(&fresh_tree, &with_edit, &|_| false).is_some();
                if stale && r != Ok(false) {
                    rep.fail(sc, &phase, format!("{r:?} although the outputs are stale (a build would now write something else)"), &["C06"]);
                }
            }
            _ => {
                let mut props: Vec<&str> = if matches!(mode, Mode::Build) { vec!["C08"] } else { vec!["C09", "C08"] };
                if sc.name == "include_gains_source" {
                    props.push("C02");
                }
                let props = &props[..];
                if r != Ok(true) {
                    rep.fail(sc, &phase, format!("{r:?} but a fresh build of the edited sources succeeds"), props);
                } else if let Some(d) = diff_trees(&fresh_tree, &snapshot(&root), &|_| false) {
                    rep.fail(sc, &phase, format!("differs from a fresh build of the edited sources: {d}"), props);
                }
            }
        }
    }
}

fn clean_without_build(mut rep: SysReport, root: &Path, sc: &Scenario, tn: bool) -> SysReport {
    if !tn {
        return rep;
    }
    // clean on a never-built tree (also with sources that have directive errors) runs nothing and deletes no source
    rep.checked += 1;
    materialize(root, sc);
    let before = snapshot(root);
    match run_real(cfg(root, sc, Mode::Clean, 2, true)) {
        Ok(v) => {
            // directive errors never fail a clean; an input that cannot be resolved or a source that is not text may
            if !v && !matches!(sc.name, "missing_target" | "invalid_utf8_midfile") {
                rep.fail(sc, "Clean on a never-built tree", "clean reports a failure".to_string(), &["C07"]);
            }
            let after = snapshot(root);
            if let Some(d) = diff_trees(&before, &after, &|_| false) {
                rep.fail(sc, "Clean on a never-built tree", format!("clean changed the tree: {d}"), &["C07", "C10"]);
            }
        }
        Err(e) => rep.fail(sc, "Clean on a never-built tree", e, &["C07", "C18"]),
    }
    rep
}
