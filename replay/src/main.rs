//! Bounded stand-in / witness search for the contract checks of /verif.
//!
//! This program runs the REAL txtpp code (linked with `--cfg pistonite_txtpp_verif`, which only adds re-exports) on an
//! enumerated corpus and evaluates a contract clause as a runtime check against an executable transcription of the
//! spec functions in /verif/spec.  It never proves anything: it is (a) the witness search that turns a failed
//! obligation into a replayable input, (b) the labelled *bounded* stand-in for functions that are not (yet) under a
//! deductive contract, (c) the fall-back when a unit is undecided.
//!
//! usage: replay <mode> [--one <json-input>]      modes: detect add_line inject replace_le depmgr
//! prints one JSON object: {"mode":..,"checked":N,"distinct":N,"bound":"..","failures":[{..}]}

mod system;
use std::collections::{BTreeMap, BTreeSet};
use std::path::PathBuf;
use txtpp::verif::{AbsPath, DepManager, Directive, DirectiveType, ReplaceLineEnding, TagState};

// ---------------------------------------------------------------- oracle: spec/directive.rs
#[derive(Debug, Clone, PartialEq)]
struct DV {
    ws: String,
    prefix: String,
    dtype: &'static str,
    args: Vec<String>,
}

fn name_table(n: &str) -> Option<&'static str> {
    match n {
        "" => Some("empty"),
        "include" => Some("include"),
        "after" => Some("after"),
        "run" => Some("run"),
        "tag" => Some("tag"),
        "temp" => Some("temp"),
        "write" => Some("write"),
        _ => None,
    }
}

fn multi_line(t: &str) -> bool {
    matches!(t, "run" | "temp" | "write" | "empty")
}

fn trim_where(s: &str) -> &str {
    s.trim_matches(char::is_whitespace)
}

fn spec_detect(line: &str) -> Option<DV> {
    let chars: Vec<char> = line.chars().collect();
    let w = chars.iter().position(|c| !c.is_whitespace()).unwrap_or(chars.len());
    let ws: String = chars[..w].iter().collect();
    let rest: String = chars[w..].iter().collect();
    let h = rest.find("TXTPP#")?;
    let prefix = &rest[..h];
    let after = &rest[h + 6..];
    let (name, arg) = match after.find(' ') {
        Some(sp) => (&after[..sp], trim_where(&after[sp + 1..])),
        None => (after, ""),
    };
    let t = name_table(name)?;
    Some(DV { ws, prefix: prefix.to_string(), dtype: t, args: vec![arg.to_string()] })
}

fn spec_continue(d: &DV, line: &str) -> Option<String> {
    if !multi_line(d.dtype) {
        return None;
    }
    let rest = line.strip_prefix(d.ws.as_str())?;
    let trimmed_prefix = d.prefix.trim_end_matches(char::is_whitespace);
    if rest == trimmed_prefix {
        return Some(String::new());
    }
    if let Some(r) = rest.strip_prefix(d.prefix.as_str()) {
        return Some(r.trim_end_matches(char::is_whitespace).to_string());
    }
    let spaces = " ".repeat(d.prefix.len());
    if let Some(r) = rest.strip_prefix(spaces.as_str()) {
        return Some(r.trim_end_matches(char::is_whitespace).to_string());
    }
    None
}

fn dtype_name(t: &DirectiveType) -> &'static str {
    match t {
        DirectiveType::Empty => "empty",
        DirectiveType::Include => "include",
        DirectiveType::After => "after",
        DirectiveType::Run => "run",
        DirectiveType::Tag => "tag",
        DirectiveType::Temp => "temp",
        DirectiveType::Write => "write",
    }
}

fn dv_of(d: &Directive) -> DV {
    DV { ws: d.whitespaces.clone(), prefix: d.prefix.clone(), dtype: dtype_name(&d.directive_type), args: d.args.clone() }
}

// ---------------------------------------------------------------- oracle: spec/lines.rs, spec/tags.rs
fn spec_lines(t: &str) -> Vec<String> {
    // std `lines()` semantics written out: split at '\n', strip one trailing '\r', drop a final empty piece
    let mut out = vec![];
    let mut rest = t;
    while !rest.is_empty() {
        match rest.find('\n') {
            Some(i) => {
                let piece = &rest[..i];
                out.push(piece.strip_suffix('\r').unwrap_or(piece).to_string());
                rest = &rest[i + 1..];
            }
            None => {
                out.push(rest.to_string());
                rest = "";
            }
        }
    }
    out
}

fn spec_replace_le(t: &str, le: &str, force: bool) -> String {
    let mut s = spec_lines(t).join(le);
    if force || t.ends_with('\n') {
        s.push_str(le);
    }
    s
}

/// C14: substitution by position: at each position (left to right) the stored tag whose FIRST occurrence in the line
/// starts there is substituted if it does not start before the end of the previous substitution; substituted text is not
/// rescanned; exactly the substituted tags are removed.
fn spec_inject(stored: &BTreeMap<String, String>, line: &str, le: &str) -> (String, BTreeMap<String, String>) {
    let mut first: BTreeMap<usize, &String> = BTreeMap::new();
    for k in stored.keys() {
        if let Some(i) = line.find(k.as_str()) {
            // prefix-free stored names cannot share a first position; keep the first in key order otherwise
            first.entry(i).or_insert(k);
        }
    }
    let mut out = String::new();
    let mut end = 0usize;
    let mut remaining = stored.clone();
    for (i, k) in first {
        if i < end {
            continue;
        }
        out.push_str(&line[end..i]);
        out.push_str(&spec_replace_le(&stored[k], le, false));
        end = i + k.len();
        remaining.remove(k);
    }
    out.push_str(&line[end..]);
    (out, remaining)
}

// ---------------------------------------------------------------- corpus
fn tokens_directive() -> Vec<&'static str> {
    vec![" ", "\t", "-", "//", "TXTPP#", "TXTPP", "#", "run", "include", "tag", "temp", "write", "after", "runx", "Run", "x", "\u{3000}", "é"]
}

fn strings_up_to(alpha: &[&str], n: usize) -> Vec<String> {
    let mut all = vec![String::new()];
    let mut layer = vec![String::new()];
    for _ in 0..n {
        let mut next = vec![];
        for s in &layer {
            for t in alpha {
                next.push(format!("{s}{t}"));
            }
        }
        all.extend(next.iter().cloned());
        layer = next;
    }
    let set: BTreeSet<String> = all.into_iter().collect();
    set.into_iter().collect()
}

pub(crate) fn jstr(s: &str) -> String {
    let mut o = String::from("\"");
    for c in s.chars() {
        match c {
            '"' => o.push_str("\\\""),
            '\\' => o.push_str("\\\\"),
            '\n' => o.push_str("\\n"),
            '\r' => o.push_str("\\r"),
            '\t' => o.push_str("\\t"),
            c if (c as u32) < 0x20 => o.push_str(&format!("\\u{:04x}", c as u32)),
            c => o.push(c),
        }
    }
    o.push('"');
    o
}

struct Report {
    mode: String,
    bound: String,
    checked: u64,
    failures: Vec<String>,
}

impl Report {
    fn fail(&mut self, func: &str, input: String, expected: String, actual: String) {
        if self.failures.len() < 5 {
            self.failures.push(format!(
                "{{\"fn\":{},\"input\":{},\"expected\":{},\"actual\":{}}}",
                jstr(func), input, jstr(&expected), jstr(&actual)
            ));
        }
    }
    fn print(&self) {
        println!(
            "{{\"mode\":{},\"bound\":{},\"checked\":{},\"failures\":[{}]}}",
            jstr(&self.mode), jstr(&self.bound), self.checked, self.failures.join(",")
        );
    }
}

fn catch<T>(f: impl FnOnce() -> T + std::panic::UnwindSafe) -> Result<T, String> {
    std::panic::catch_unwind(f).map_err(|e| {
        if let Some(s) = e.downcast_ref::<String>() { format!("PANIC: {s}") }
        else if let Some(s) = e.downcast_ref::<&str>() { format!("PANIC: {s}") }
        else { "PANIC".to_string() }
    })
}

// ---------------------------------------------------------------- modes
fn check_detect_one(rep: &mut Report, line: &str) {
    rep.checked += 1;
    let l = line.to_string();
    let actual = catch(move || Directive::detect_from(&l).map(|d| dv_of(&d)));
    let expected = spec_detect(line);
    match actual {
        Err(p) => rep.fail("Directive::detect_from", format!("{{\"line\":{}}}", jstr(line)), format!("{expected:?}"), p),
        Ok(a) => {
            if a != expected {
                rep.fail("Directive::detect_from", format!("{{\"line\":{}}}", jstr(line)), format!("{expected:?}"), format!("{a:?}"));
            }
        }
    }
}

pub(crate) fn deep() -> bool {
    std::env::var("VERIF_DEEP").map(|v| v == "1").unwrap_or(false)
}

fn mode_detect(rep: &mut Report) {
    let n = if deep() { 5 } else { 4 };
    rep.bound = format!("all concatenations of <= {n} tokens over {{space, tab, -, //, TXTPP#, TXTPP, #, run, include, tag, temp, write, after, runx, Run, x, U+3000, e-acute}}");
    for s in strings_up_to(&tokens_directive(), n) {
        check_detect_one(rep, &s);
    }
}

fn check_add_line_one(rep: &mut Report, first: &str, cont: &str) {
    let Some(d0) = Directive::detect_from(first) else { return };
    rep.checked += 1;
    let dv0 = dv_of(&d0);
    let c = cont.to_string();
    let mut d = d0;
    let actual = catch(std::panic::AssertUnwindSafe(move || {
        let r = d.add_line(&c);
        (r.is_ok(), dv_of(&d))
    }));
    let expected = match spec_continue(&dv0, cont) {
        Some(arg) => {
            let mut e = dv0.clone();
            e.args.push(arg);
            (true, e)
        }
        None => (false, dv0.clone()),
    };
    let input = format!("{{\"first\":{},\"cont\":{}}}", jstr(first), jstr(cont));
    match actual {
        Err(p) => rep.fail("Directive::add_line", input, format!("{expected:?}"), p),
        Ok(a) => {
            if a != expected {
                rep.fail("Directive::add_line", input, format!("{expected:?}"), format!("{a:?}"));
            }
        }
    }
}

fn mode_add_line(rep: &mut Report) {
    let n = if deep() { 5 } else { 3 };
    rep.bound = format!("first lines from a fixed list of 14 directive lines x continuation lines of <= {n} tokens over {{space, tab, -, //, //space, #, x, TXTPP#, e-acute, U+3000}}");
    let firsts = [
        "-TXTPP#run a", "  // TXTPP#run a", "//  TXTPP#temp f", "\t# TXTPP#write x", "-TXTPP#", "  -TXTPP#", "é TXTPP#run", "\u{3000}-TXTPP#write",
        "-TXTPP#include a", "-TXTPP#tag T", "-TXTPP#after a", "// TXTPP#run", "#   TXTPP#temp t", "--TXTPP#write",
    ];
    let alpha = [" ", "\t", "-", "//", "// ", "#", "x", "TXTPP#", "é", "\u{3000}"];
    let conts = strings_up_to(&alpha, n);
    for f in firsts {
        for c in &conts {
            check_add_line_one(rep, f, c);
        }
    }
}

fn check_inject_one(rep: &mut Report, tags: &[(String, String)], line: &str, le: &str) {
    rep.checked += 1;
    let stored: BTreeMap<String, String> = tags.iter().cloned().collect();
    let (exp_text, exp_rem) = spec_inject(&stored, line, le);
    // which tags remain is observed through a second injection: for every tag name k, the line `k` alone
    let exp_probe: Vec<String> = tags.iter().map(|(k, _)| spec_inject(&exp_rem, k, le).0).collect();
    let tags_v: Vec<(String, String)> = tags.to_vec();
    let (l, e) = (line.to_string(), le.to_string());
    let actual = catch(move || {
        // repeated to expose hash-order dependence
        let mut results = BTreeSet::new();
        for _ in 0..3 {
            let mut probes = vec![];
            let mut first = String::new();
            for (k, _) in &tags_v {
                let mut ts = TagState::new();
                for (kk, v) in &tags_v {
                    ts.create(kk).map_err(|_| ()).expect("create");
                    ts.try_store(v).expect("store");
                }
                first = ts.inject_tags(&l, &e);
                probes.push(ts.inject_tags(k, &e));
            }
            if tags_v.is_empty() {
                let mut ts = TagState::new();
                first = ts.inject_tags(&l, &e);
            }
            results.insert((first, probes));
        }
        results
    });
    let input = format!(
        "{{\"tags\":[{}],\"line\":{},\"le\":{}}}",
        tags.iter().map(|(k, v)| format!("[{},{}]", jstr(k), jstr(v))).collect::<Vec<_>>().join(","),
        jstr(line), jstr(le)
    );
    let exp = format!("{exp_text:?} then probes {exp_probe:?}");
    match actual {
        Err(p) => rep.fail("TagState::inject_tags", input, exp, p),
        Ok(results) => {
            if results.len() != 1 {
                rep.fail("TagState::inject_tags", input, exp, format!("non-deterministic: {results:?}"));
            } else {
                let (out, probes) = results.into_iter().next().unwrap();
                if out != exp_text || probes != exp_probe {
                    rep.fail("TagState::inject_tags", input, exp, format!("{out:?} then probes {probes:?}"));
                }
            }
        }
    }
}

fn prefix_related(a: &str, b: &str) -> bool {
    a.starts_with(b) || b.starts_with(a)
}

fn mode_inject(rep: &mut Report) {
    let n = if deep() { 7 } else { 5 };
    rep.bound = format!("all prefix-free tag-name sets of size <= 3 over {{A, AB, BA, B, BC, ABC, CA}} x lines of <= {n} tokens over {{A, B, C, x}} x 3 stored contents x le in {{LF, CRLF}}; each case repeated 4 times");
    let names = ["A", "AB", "BA", "B", "BC", "ABC", "CA"];
    let contents = ["1", "B\nA", "x\r\ny\n"];
    let lines = strings_up_to(&["A", "B", "C", "x"], n);
    let mut sets: Vec<Vec<&str>> = vec![vec![]];
    for i in 0..names.len() {
        sets.push(vec![names[i]]);
        for j in i + 1..names.len() {
            sets.push(vec![names[i], names[j]]);
            for k in j + 1..names.len() {
                sets.push(vec![names[i], names[j], names[k]]);
            }
        }
    }
    for set in sets {
        let ok = set.iter().enumerate().all(|(i, a)| set.iter().enumerate().all(|(j, b)| i == j || !prefix_related(a, b)));
        if !ok {
            continue;
        }
        for (ci, _) in contents.iter().enumerate() {
            let tags: Vec<(String, String)> = set.iter().enumerate().map(|(i, k)| (k.to_string(), contents[(ci + i) % contents.len()].to_string())).collect();
            for line in &lines {
                for le in ["\n", "\r\n"] {
                    check_inject_one(rep, &tags, line, le);
                }
            }
        }
    }
}

fn mode_replace_le(rep: &mut Report) {
    let n = if deep() { 9 } else { 6 };
    rep.bound = format!("all texts of <= {n} tokens over {{a, LF, CRLF, space}} x le in {{LF, CRLF}} x force in {{true,false}}");
    for t in strings_up_to(&["a", "\n", "\r\n", " "], n) {
        for le in ["\n", "\r\n"] {
            for force in [false, true] {
                rep.checked += 1;
                let actual = t.replace_line_ending(le, force);
                let expected = spec_replace_le(&t, le, force);
                if actual != expected {
                    rep.fail("str::replace_line_ending", format!("{{\"text\":{},\"le\":{},\"force\":{}}}", jstr(&t), jstr(le), force), expected, actual);
                }
            }
        }
    }
}

// DepManager against its abstract view (edges, finished)
#[derive(Clone, Debug)]
enum Op {
    Add(usize, Vec<usize>),
    Fin(usize),
}

fn key(i: usize) -> AbsPath {
    AbsPath::new(PathBuf::from(format!("/k{i}")))
}

fn run_depmgr_seq(seq: &[Op]) -> Result<(), (String, String)> {
    let mut m = DepManager::new();
    let mut edges: BTreeSet<(usize, usize)> = BTreeSet::new();
    let mut fin: BTreeSet<usize> = BTreeSet::new();
    for op in seq {
        match op {
            Op::Add(a, deps) => {
                let dv: Vec<AbsPath> = deps.iter().map(|d| key(*d)).collect();
                let r = m.add_dependency(&key(*a), &dv);
                let exp = deps.iter().any(|d| !fin.contains(d));
                for d in deps {
                    if !fin.contains(d) {
                        edges.insert((*a, *d));
                    }
                }
                if r != exp {
                    return Err((format!("add_dependency result {exp}"), format!("{r}")));
                }
            }
            Op::Fin(b) => {
                let out = m.notify_finish(&key(*b));
                let mut exp: BTreeSet<usize> = BTreeSet::new();
                for (a, bb) in edges.iter() {
                    if bb == b && edges.iter().filter(|(x, _)| x == a).all(|(_, y)| y == b) {
                        exp.insert(*a);
                    }
                }
                edges.retain(|(_, y)| y != b);
                fin.insert(*b);
                let got: BTreeSet<usize> = (0..3).filter(|i| out.contains(&key(*i))).collect();
                if got != exp || out.len() != exp.len() {
                    return Err((format!("notify_finish releases {exp:?}"), format!("{got:?} (len {})", out.len())));
                }
            }
        }
    }
    let rem = m.take_remaining();
    let mut got: BTreeSet<(usize, usize)> = BTreeSet::new();
    for a in 0..3 {
        if let Some(s) = rem.get(&key(a)) {
            for b in 0..3 {
                if s.contains(&key(b)) {
                    got.insert((a, b));
                }
            }
        }
    }
    if got != edges || rem.is_empty() != edges.is_empty() {
        return Err((format!("take_remaining {edges:?}"), format!("{got:?} empty={}", rem.is_empty())));
    }
    Ok(())
}

fn mode_depmgr(rep: &mut Report) {
    let maxlen = 4;
    rep.bound = format!("all operation sequences of length <= {maxlen} over 3 keys: add_dependency(a, deps) with deps any list of <= 2 keys, notify_finish(b)");
    let mut ops = vec![];
    for a in 0..3 {
        ops.push(Op::Fin(a));
        ops.push(Op::Add(a, vec![]));
        for b in 0..3 {
            ops.push(Op::Add(a, vec![b]));
            for c in 0..3 {
                ops.push(Op::Add(a, vec![b, c]));
            }
        }
    }
    let mut stack: Vec<Vec<usize>> = vec![vec![]];
    while let Some(idx) = stack.pop() {
        if !idx.is_empty() {
            rep.checked += 1;
            let seq: Vec<Op> = idx.iter().map(|i| ops[*i].clone()).collect();
            let s2 = seq.clone();
            let r = catch(move || run_depmgr_seq(&s2));
            let input = format!("{{\"ops\":{}}}", jstr(&format!("{seq:?}")));
            match r {
                Err(p) => rep.fail("DepManager", input, "no panic".into(), p),
                Ok(Err((e, a))) => rep.fail("DepManager", input, e, a),
                Ok(Ok(())) => {}
            }
            if rep.failures.len() >= 5 {
                return;
            }
        }
        if idx.len() < maxlen {
            for i in 0..ops.len() {
                let mut n = idx.clone();
                n.push(i);
                stack.push(n);
            }
        }
    }
}

fn main() {
    std::panic::set_hook(Box::new(|_| {
        system::PANICS.fetch_add(1, std::sync::atomic::Ordering::SeqCst);
    }));
    let args: Vec<String> = std::env::args().collect();
    let mode = args.get(1).cloned().unwrap_or_default();
    let mut rep = Report { mode: mode.clone(), bound: String::new(), checked: 0, failures: vec![] };
    match mode.as_str() {
        "detect" => mode_detect(&mut rep),
        "add_line" => mode_add_line(&mut rep),
        "inject" => mode_inject(&mut rep),
        "replace_le" => mode_replace_le(&mut rep),
        "depmgr" => mode_depmgr(&mut rep),
        "system" => {
            let work = std::path::PathBuf::from(args.get(2).cloned().unwrap_or_else(|| "syswork".into()));
            let r = system::run_all(&work);
            let _ = std::fs::remove_dir_all(&work);
            rep.bound = format!("{} random single-file and {} random multi-file projects (seed VERIF_SEED; base phase, multi-file also 4 threads / verify / clean) + {} fixed project scenarios x {{trailing newline on/off}} x {{Build, InMemoryBuild}} x 5 pre-states of the generated files x {} threads, then Verify (+ tampering of each output), up-to-date rebuilds (inode/mtime), Clean twice; reference = executable transcription of spec/pp.rs; scenarios where the semantics prescribe an error: {:?}", if deep() { 3000 } else { 300 }, if deep() { 1500 } else { 150 }, system::scenarios().len(), if deep() { "{1,2,4,8,16} (pre-states: {1,4})" } else { "{1,4}" }, { let mut e: Vec<String> = r.expected_err.iter().filter(|x| x.as_str() != "random").cloned().collect(); e.sort(); e.push(format!("and {} of the random projects", r.expected_err.iter().filter(|x| x.as_str() == "random").count())); e });
            rep.checked = r.checked;
            rep.failures = r.failures;
        }
        _ => {
            eprintln!("unknown mode");
            std::process::exit(2);
        }
    }
    rep.print();
}
