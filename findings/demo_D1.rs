//! Demonstration of finding D1 (C18): a thread count of zero must not panic.
//! Drop into tests/ of txtpp; fails (panics) before the fix, passes after.
use std::fs;
use txtpp::{Config, Mode, Txtpp, Verbosity};

#[test]
fn zero_threads_does_not_panic() {
    let d = std::env::temp_dir().join(format!("txtpp_verif_d1_{}", std::process::id()));
    let _ = fs::remove_dir_all(&d);
    fs::create_dir_all(&d).unwrap();
    fs::write(d.join("a.txt.txtpp"), "hello\n").unwrap();
    let cfg = Config {
        base_dir: d.clone(),
        shell_cmd: "".to_string(),
        inputs: vec![".".to_string()],
        recursive: false,
        num_threads: 0,
        mode: Mode::Build,
        verbosity: Verbosity::Quiet,
        trailing_newline: true,
    };
    let r = std::panic::catch_unwind(|| Txtpp::run(cfg).is_ok());
    assert!(r.is_ok(), "Txtpp::run panicked with num_threads = 0");
    assert_eq!(fs::read_to_string(d.join("a.txt")).unwrap(), "hello\n");
    let _ = fs::remove_dir_all(&d);
}
