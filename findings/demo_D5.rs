//! Demonstration of finding D5 (C11): a source named foo.txtpp.ext with a dotted stem (a.b.txtpp.c) must produce
//! a.b.c beside it.  Drop into tests/ of txtpp; fails before the fix, passes after.
use std::fs;
use txtpp::{Config, Mode, Txtpp, Verbosity};

#[test]
fn infix_source_with_dotted_stem_keeps_its_stem() {
    let d = std::env::temp_dir().join(format!("txtpp_verif_d5_{}", std::process::id()));
    let _ = fs::remove_dir_all(&d);
    fs::create_dir_all(&d).unwrap();
    fs::write(d.join("a.b.txtpp.c"), "hello\n").unwrap();
    let cfg = Config {
        base_dir: d.clone(),
        shell_cmd: "".to_string(),
        inputs: vec![".".to_string()],
        recursive: false,
        num_threads: 1,
        mode: Mode::Build,
        verbosity: Verbosity::Quiet,
        trailing_newline: true,
    };
    assert!(Txtpp::run(cfg).is_ok());
    let mut names: Vec<String> = fs::read_dir(&d).unwrap().map(|e| e.unwrap().file_name().to_string_lossy().to_string()).collect();
    names.sort();
    assert_eq!(names, vec!["a.b.c".to_string(), "a.b.txtpp.c".to_string()], "output must be a.b.c");
    let _ = fs::remove_dir_all(&d);
}
