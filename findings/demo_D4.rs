//! Demonstration of finding D4 (C17): a run command must execute in the directory of its source file
//! whatever the process working directory is.  Drop into tests/ of txtpp; fails before the fix, passes after.
use std::fs;
use std::path::PathBuf;
use txtpp::{Config, Mode, Txtpp, Verbosity};

#[test]
fn run_executes_in_source_directory_when_base_is_not_cwd() {
    let d = std::env::temp_dir().join(format!("txtpp_verif_d4_{}", std::process::id()));
    let _ = fs::remove_dir_all(&d);
    fs::create_dir_all(d.join("base/sub")).unwrap();
    // the process cwd (the crate root while testing) is unrelated to the base directory
    fs::write(d.join("base/sub/a.txt.txtpp"), "-TXTPP#run pwd\n").unwrap();
    let cfg = Config {
        base_dir: PathBuf::from(d.join("base")),
        shell_cmd: "".to_string(),
        inputs: vec![".".to_string()],
        recursive: true,
        num_threads: 1,
        mode: Mode::Build,
        verbosity: Verbosity::Quiet,
        trailing_newline: true,
    };
    let r = Txtpp::run(cfg);
    assert!(r.is_ok(), "build failed: {:?}", r.err());
    let out = fs::read_to_string(d.join("base/sub/a.txt")).unwrap();
    let expect = d.join("base/sub").canonicalize().unwrap();
    assert_eq!(out.trim_end(), expect.display().to_string());
    let _ = fs::remove_dir_all(&d);
}
