//! Demonstration of findings D2 (C08) and D3 (C08/C09): a build must not depend on the bytes a previous
//! run left at a generated path.  Drop into tests/ of txtpp; fails before the fix, passes after.
use std::fs;
use std::path::PathBuf;
use txtpp::{Config, Mode, Txtpp, Verbosity};

fn tmpdir(name: &str) -> PathBuf {
    let d = std::env::temp_dir().join(format!("txtpp_verif_{}_{}", name, std::process::id()));
    let _ = fs::remove_dir_all(&d);
    fs::create_dir_all(&d).unwrap();
    d
}

fn cfg(base: &PathBuf, mode: Mode) -> Config {
    Config {
        base_dir: base.clone(),
        shell_cmd: "".to_string(),
        inputs: vec![".".to_string()],
        recursive: false,
        num_threads: 1,
        mode,
        verbosity: Verbosity::Quiet,
        trailing_newline: true,
    }
}

/// D3: output pre-filled with bytes that are not UTF-8: `--needed` build must behave like a normal build
#[test]
fn needed_build_ignores_non_utf8_prestate_of_output() {
    let d = tmpdir("d3");
    fs::write(d.join("a.txt.txtpp"), "hello\n").unwrap();
    fs::write(d.join("a.txt"), b"hel\xC3").unwrap();
    assert!(Txtpp::run(cfg(&d, Mode::Build)).is_ok(), "normal build succeeds");
    fs::write(d.join("a.txt"), b"hel\xC3").unwrap();
    let r = Txtpp::run(cfg(&d, Mode::InMemoryBuild));
    assert!(r.is_ok(), "--needed build fails on a stale non-UTF-8 output: {:?}", r.err());
    assert_eq!(fs::read(d.join("a.txt")).unwrap(), b"hello\n");
    let _ = fs::remove_dir_all(&d);
}

/// D2: temp target pre-filled with bytes that are not UTF-8: build must overwrite it
#[test]
fn build_ignores_non_utf8_prestate_of_temp_target() {
    let d = tmpdir("d2");
    fs::write(d.join("a.txt.txtpp"), "-TXTPP#temp t.bin\n-x\nend\n").unwrap();
    fs::write(d.join("t.bin"), b"\xFF\xFE").unwrap();
    let r = Txtpp::run(cfg(&d, Mode::Build));
    assert!(r.is_ok(), "build fails on a stale non-UTF-8 temp file: {:?}", r.err());
    assert_eq!(fs::read(d.join("t.bin")).unwrap(), b"x");
    let _ = fs::remove_dir_all(&d);
}
