#!/bin/sh
# Offline setup: nothing is fetched or installed. Confirms the verifier runs and warms its caches.
set -e
cd "$(dirname "$0")"
mkdir -p gen evidence replay/out
cat > gen/_warm.rs <<'EOT'
use vstd::prelude::*;
verus! { proof fn warm() ensures 1 + 1 == 2int {} }
fn main() {}
EOT
(cd gen && verus _warm.rs >/dev/null 2>&1) || { echo "verus is not usable"; exit 1; }
rm -f gen/_warm.rs
echo "setup ok"
