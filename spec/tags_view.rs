// ---- spec/tags_view.rs : TagState's abstract value, defined on its real fields (unit U6)

/// String-keyed map -> text-keyed map
pub open spec fn smap_v(m: Map<String, String>) -> Map<Seq<char>, Seq<char>> {
    Map::new(m.dom().map(|s: String| s@), |k: Seq<char>| m[choose|s: String| m.contains_key(s) && s@ == k]@)
}

pub closed spec fn tsv(t: &TagState) -> TagV {
    TagV {
        listening: match t.listening { Some(s) => Some(s@), None => None },
        stored: smap_v(t.stored@),
    }
}

pub proof fn lemma_smap_contains(m: Map<String, String>, k: Seq<char>)
    ensures
        smap_v(m).contains_key(k) <==> exists|s: String| m.contains_key(s) && s@ == k,
{
    if smap_v(m).contains_key(k) {
        assert(m.dom().map(|s: String| s@).contains(k));
    }
    if exists|s: String| m.contains_key(s) && s@ == k {
        let s = choose|s: String| m.contains_key(s) && s@ == k;
        assert(m.dom().contains(s));
        assert(m.dom().map(|s: String| s@).contains(k));
    }
}

pub proof fn lemma_smap_value(m: Map<String, String>, s: String)
    requires
        m.contains_key(s),
    ensures
        smap_v(m).contains_key(s@),
        smap_v(m)[s@] == m[s]@,
{
    lemma_smap_contains(m, s@);
    let c = choose|x: String| m.contains_key(x) && x@ == s@;
    axiom_string_ext(c, s);
}

pub proof fn lemma_smap_empty()
    ensures
        smap_v(Map::<String, String>::empty()) == Map::<Seq<char>, Seq<char>>::empty(),
{
    assert forall|k: Seq<char>| !smap_v(Map::<String, String>::empty()).contains_key(k) by {
        lemma_smap_contains(Map::<String, String>::empty(), k);
    }
    assert(smap_v(Map::<String, String>::empty()) =~= Map::<Seq<char>, Seq<char>>::empty());
}

pub proof fn lemma_smap_insert(m: Map<String, String>, k: String, v: String)
    ensures
        smap_v(m.insert(k, v)) == smap_v(m).insert(k@, v@),
{
    let a = smap_v(m.insert(k, v));
    let b = smap_v(m).insert(k@, v@);
    assert forall|x: Seq<char>| a.contains_key(x) <==> b.contains_key(x) by {
        lemma_smap_contains(m.insert(k, v), x);
        lemma_smap_contains(m, x);
        if a.contains_key(x) {
            let s = choose|s: String| m.insert(k, v).contains_key(s) && s@ == x;
            if s != k {
                assert(m.contains_key(s));
            }
        }
        if b.contains_key(x) && x != k@ {
            let s = choose|s: String| m.contains_key(s) && s@ == x;
            assert(m.insert(k, v).contains_key(s));
        }
        if x == k@ {
            assert(m.insert(k, v).contains_key(k));
        }
    }
    assert forall|x: Seq<char>| a.contains_key(x) implies a[x] == b[x] by {
        lemma_smap_contains(m.insert(k, v), x);
        let s = choose|s: String| m.insert(k, v).contains_key(s) && s@ == x;
        lemma_smap_value(m.insert(k, v), s);
        if s == k {
        } else {
            assert(m.contains_key(s));
            lemma_smap_value(m, s);
            if x == k@ {
                axiom_string_ext(s, k);
            }
        }
    }
    assert(a =~= b);
}

pub proof fn lemma_smap_dom_empty(m: Map<String, String>)
    ensures
        (smap_v(m).dom() =~= Set::<Seq<char>>::empty()) <==> (m.dom() =~= Set::<String>::empty()),
{
    if m.dom() =~= Set::<String>::empty() {
        assert forall|x: Seq<char>| !smap_v(m).contains_key(x) by {
            lemma_smap_contains(m, x);
        }
    } else {
        let s = choose|s: String| m.dom().contains(s);
        lemma_smap_value(m, s);
        assert(smap_v(m).dom().contains(s@));
    }
}

/// as lemma_smap_insert, for a key/value only known through their text
pub proof fn lemma_smap_insert_ex(m0: Map<String, String>, m1: Map<String, String>, kv: Seq<char>, vv: Seq<char>)
    requires
        exists|k: String, v: String| k@ == kv && v@ == vv && m1 == #[trigger] m0.insert(k, v),
    ensures
        smap_v(m1) == smap_v(m0).insert(kv, vv),
{
    let (k, v) = choose|k: String, v: String| k@ == kv && v@ == vv && m1 == #[trigger] m0.insert(k, v);
    lemma_smap_insert(m0, k, v);
}
