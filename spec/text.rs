// ---- spec/text.rs : text-level spec functions over Seq<char> and PROVED lemmas (no assumptions here)
pub open spec fn is_ws(c: char) -> bool { vstd::std_specs::char::is_white_space(c) }

pub open spec fn blen(s: Seq<char>) -> nat { vstd::utf8::encode_utf8(s).len() }

/// How a `core::str::pattern::Pattern` value is read by the spec: a predicate on single characters
/// (closures, fn items, a `char`) or a literal substring (`&str`, `&String`).
pub enum PatKind {
    Pred(spec_fn(char) -> bool),
    Str(Seq<char>),
}

/// a match of the pattern starts at char index i of s
pub open spec fn pk_match_at(k: PatKind, s: Seq<char>, i: int) -> bool {
    match k {
        PatKind::Pred(p) => 0 <= i < s.len() && p(s[i]),
        PatKind::Str(t) => 0 <= i && i + t.len() <= s.len() && s.subrange(i, i + t.len()) == t,
    }
}

pub open spec fn pk_match_len(k: PatKind) -> int {
    match k {
        PatKind::Pred(p) => 1,
        PatKind::Str(t) => t.len() as int,
    }
}

/// char index of the first match starting at or after `from`
pub open spec fn pk_find_from(k: PatKind, s: Seq<char>, from: int) -> Option<int>
    decreases s.len() - from,
{
    if from < 0 || from > s.len() {
        None
    } else if pk_match_at(k, s, from) {
        Some(from)
    } else if from == s.len() {
        None
    } else {
        pk_find_from(k, s, from + 1)
    }
}

pub open spec fn pk_find(k: PatKind, s: Seq<char>) -> Option<int> {
    pk_find_from(k, s, 0)
}

pub proof fn lemma_pk_find_from(k: PatKind, s: Seq<char>, from: int)
    requires
        0 <= from <= s.len(),
    ensures
        match pk_find_from(k, s, from) {
            Some(i) => from <= i <= s.len() && pk_match_at(k, s, i) && (forall|j: int| from <= j < i ==> !pk_match_at(k, s, j)),
            None => forall|j: int| from <= j <= s.len() ==> !pk_match_at(k, s, j),
        },
    decreases s.len() - from,
{
    if pk_match_at(k, s, from) {
    } else if from < s.len() {
        lemma_pk_find_from(k, s, from + 1);
    }
}

/// uniqueness: any index with the "first match" property is the one pk_find returns
pub proof fn lemma_pk_find_unique(k: PatKind, s: Seq<char>, i: int)
    requires
        0 <= i <= s.len(),
        pk_match_at(k, s, i),
        forall|j: int| 0 <= j < i ==> !pk_match_at(k, s, j),
    ensures
        pk_find(k, s) == Some(i),
{
    lemma_pk_find_from(k, s, 0);
}

pub proof fn lemma_pk_find_none(k: PatKind, s: Seq<char>)
    requires
        forall|j: int| 0 <= j <= s.len() ==> !pk_match_at(k, s, j),
    ensures
        pk_find(k, s) == None::<int>,
{
    lemma_pk_find_from(k, s, 0);
}

pub open spec fn pk_starts_with(k: PatKind, s: Seq<char>) -> bool {
    pk_match_at(k, s, 0)
}

pub open spec fn pk_ends_with(k: PatKind, s: Seq<char>) -> bool {
    pk_match_at(k, s, s.len() - pk_match_len(k))
}

pub open spec fn pk_split_once(k: PatKind, s: Seq<char>) -> Option<(Seq<char>, Seq<char>)> {
    match pk_find(k, s) {
        Some(i) => Some((s.take(i), s.skip(i + pk_match_len(k)))),
        None => None,
    }
}

/// number of leading chars satisfying p
pub open spec fn count_leading(s: Seq<char>, p: spec_fn(char) -> bool) -> int
    decreases s.len(),
{
    if s.len() > 0 && p(s[0]) {
        1 + count_leading(s.skip(1), p)
    } else {
        0
    }
}

pub open spec fn trim_start_where(s: Seq<char>, p: spec_fn(char) -> bool) -> Seq<char>
    decreases s.len(),
{
    if s.len() > 0 && p(s[0]) {
        trim_start_where(s.skip(1), p)
    } else {
        s
    }
}

pub open spec fn trim_end_where(s: Seq<char>, p: spec_fn(char) -> bool) -> Seq<char>
    decreases s.len(),
{
    if s.len() > 0 && p(s.last()) {
        trim_end_where(s.drop_last(), p)
    } else {
        s
    }
}

pub open spec fn trim_where(s: Seq<char>, p: spec_fn(char) -> bool) -> Seq<char> {
    trim_end_where(trim_start_where(s, p), p)
}

pub open spec fn ws_pred() -> spec_fn(char) -> bool { |c: char| is_ws(c) }
pub open spec fn not_ws_pred() -> spec_fn(char) -> bool { |c: char| !is_ws(c) }
pub open spec fn char_pred(p: char) -> spec_fn(char) -> bool { |c: char| c == p }

pub open spec fn pk_pred(k: PatKind) -> spec_fn(char) -> bool {
    match k {
        PatKind::Pred(p) => p,
        PatKind::Str(t) => |c: char| false,
    }
}

// ---- UTF-8 bridging lemmas, proved from vstd::utf8
pub proof fn lemma_utf8_split(s: Seq<char>, i: int)
    requires
        0 <= i <= s.len(),
    ensures
        blen(s.take(i)) + blen(s.skip(i)) == blen(s),
        vstd::utf8::is_char_boundary(vstd::utf8::encode_utf8(s), blen(s.take(i)) as int),
        vstd::utf8::encode_utf8(s).subrange(0, blen(s.take(i)) as int) == vstd::utf8::encode_utf8(s.take(i)),
        vstd::utf8::encode_utf8(s).subrange(blen(s.take(i)) as int, blen(s) as int) == vstd::utf8::encode_utf8(s.skip(i)),
{
    broadcast use vstd::utf8::group_utf8_lib;
    assert(s =~= s.take(i) + s.skip(i));
    vstd::utf8::encode_utf8_concat(s.take(i), s.skip(i));
    let a = vstd::utf8::encode_utf8(s.take(i));
    let b = vstd::utf8::encode_utf8(s.skip(i));
    assert(vstd::utf8::encode_utf8(s) == a + b);
    assert((a + b).subrange(0, a.len() as int) =~= a);
    assert((a + b).subrange(a.len() as int, (a + b).len() as int) =~= b);
}

pub proof fn lemma_utf8_inj(a: Seq<char>, b: Seq<char>)
    requires
        vstd::utf8::encode_utf8(a) == vstd::utf8::encode_utf8(b),
    ensures
        a == b,
{
    vstd::utf8::encode_utf8_decode_utf8(a);
    vstd::utf8::encode_utf8_decode_utf8(b);
}

pub open spec fn repeat_seq(s: Seq<char>, n: nat) -> Seq<char>
    decreases n,
{
    if n == 0 { Seq::<char>::empty() } else { s + repeat_seq(s, (n - 1) as nat) }
}

/// the characters of a str are determined by its bytes (proved from vstd::utf8)
pub broadcast proof fn lemma_str_view_from_bytes(s: &str)
    ensures
        #[trigger] s@ == vstd::utf8::decode_utf8(s.spec_bytes()),
{
    broadcast use vstd::utf8::group_utf8_lib;
    vstd::utf8::encode_utf8_decode_utf8(s@);
}
