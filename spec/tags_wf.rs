// ---- spec/tags_wf.rs : prefix-freeness and the representation invariant of the tag store (shared by U6, U13, U14)

/// neither is a prefix of the other (equal names included)
pub open spec fn prefix_related(a: Seq<char>, b: Seq<char>) -> bool {
    a.is_prefix_of(b) || b.is_prefix_of(a)
}

/// C14: "None of the tags can be prefix of another tag"
pub open spec fn prefix_free(m: Map<Seq<char>, Seq<char>>) -> bool {
    forall|a: Seq<char>, b: Seq<char>| m.contains_key(a) && m.contains_key(b) && a != b ==> !prefix_related(a, b)
}

/// representation invariant of the tag store (C14 anchors: "stored tags: name -> captured output, pairwise
/// prefix-free"): the stored names are pairwise prefix-free, and so they stay when the waiting name is stored
pub open spec fn tag_wf(t: TagV) -> bool {
    &&& prefix_free(t.stored)
    &&& (t.listening is Some ==> forall|k: Seq<char>| #[trigger] t.stored.contains_key(k) && k != t.listening->Some_0 ==> !prefix_related(k, t.listening->Some_0))
}

