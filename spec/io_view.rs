// ---- spec/io_view.rs : abstract views of AbsPath / CtxOut / IOCtx shared by the units that verify or call them
/// bytes of a &str
pub open spec fn sb(s: &str) -> Seq<u8> { s.spec_bytes() }

// ---- AbsPath as seen from this unit (its methods are verified in unit U9)

impl AbsPath {
    /// the absolute, canonical path
    pub closed spec fn pv(&self) -> PathV { pbv(&self.p) }
}

/// trusted: `impl AsRef<Path> for AbsPath` returns the absolute path `p` (abs_path.rs:56-61)
#[verifier::external_body]
pub proof fn axiom_arp_abspath(a: AbsPath)
    ensures
        arp::<AbsPath>(a) == a.pv(),
{
}

/// what `Display for AbsPath` prints: the path relative to the base directory of the run (abs_path.rs:153-185;
/// `path_string_from_base` is not under contract).  This is the text of TXTPP_FILE and of error messages.
pub uninterp spec fn display_v(a: AbsPath) -> Seq<char>;

/// trusted: `a.to_string()` is what `Display for AbsPath` prints
#[verifier::external_body]
pub proof fn axiom_abspath_to_string(c: &AbsPath, s: String)
    requires
        vstd::string::to_string_from_display_ensures::<AbsPath>(c, s),
    ensures
        s@ == display_v(*c),
{
}

/// what a successful processing of a source leaves at its output path `out` when `t` is the text it produced:
/// Build: the file is `t`; --needed: written or already equal; Verify: the existing file IS `t`; Clean: nothing
pub open spec fn out_effect(mode: Mode, out: PathV, t: Seq<u8>) -> bool {
    match mode {
        Mode::Build => committed(out, t),
        Mode::InMemoryBuild => committed(out, t) || (fs_exists(out) && fs_bytes(out) == t),
        Mode::Clean => true,
        Mode::Verify => fs_bytes(out) == t,
    }
}

impl CtxOut {
    /// representation invariant: the handle is open on `path`; in Verify `rem` counts the unread bytes
    pub closed spec fn wf(&self) -> bool {
        match self {
            CtxOut::Build { path, out } => h_path(out) == pbv(path),
            CtxOut::InMemoryBuild { .. } => true,
            CtxOut::Clean => true,
            CtxOut::Verify { path, out, rem } => h_path(out) == pbv(path) && *rem as nat == h_rest(out).len(),
        }
    }
    /// the output path this sink is bound to (Clean has none)
    pub closed spec fn path_v(&self) -> PathV {
        match self {
            CtxOut::Build { path, .. } => pbv(path),
            CtxOut::InMemoryBuild { path, .. } => pbv(path),
            CtxOut::Clean => Seq::<u8>::empty(),
            CtxOut::Verify { path, .. } => pbv(path),
        }
    }
    /// Build / InMemoryBuild: every byte accepted so far
    pub closed spec fn written(&self) -> Seq<u8> {
        match self {
            CtxOut::Build { out, .. } => h_view(out),
            CtxOut::InMemoryBuild { out, .. } => vstd::utf8::encode_utf8(out@),
            _ => Seq::<u8>::empty(),
        }
    }
    /// Verify: the bytes of the existing output not yet compared
    pub closed spec fn unverified(&self) -> Seq<u8> {
        match self {
            CtxOut::Verify { out, .. } => h_rest(out),
            _ => Seq::<u8>::empty(),
        }
    }
    /// what a successful `done()` leaves behind when `t` is everything that was written through this sink
    /// (`self` is the sink as created): Build: the file is `t`; --needed: written or already equal; Verify: the
    /// existing file IS `t`
    pub closed spec fn final_effect(&self, t: Seq<u8>) -> bool {
        match self {
            CtxOut::Build { path, .. } => committed(pbv(path), t),
            CtxOut::InMemoryBuild { path, .. } => committed(pbv(path), t) || (fs_exists(pbv(path)) && fs_bytes(pbv(path)) == t),
            CtxOut::Clean => true,
            CtxOut::Verify { out, .. } => h_rest(out) == t,
        }
    }
    /// `cur` is the sink `self` after `t` has been written through it
    pub closed spec fn after_writing(&self, cur: &CtxOut, t: Seq<u8>) -> bool {
        &&& cur.kind() == self.kind()
        &&& cur.path_v() == self.path_v()
        &&& (self.kind() is Build || self.kind() is InMemoryBuild ==> cur.written() == self.written() + t)
        &&& (self.kind() is Verify ==> self.unverified() == t + cur.unverified())
    }
    pub closed spec fn kind(&self) -> Mode {
        match self {
            CtxOut::Build { .. } => Mode::Build,
            CtxOut::InMemoryBuild { .. } => Mode::InMemoryBuild,
            CtxOut::Clean => Mode::Clean,
            CtxOut::Verify { .. } => Mode::Verify,
        }
    }
}

impl IOCtx {
    pub closed spec fn sink(&self) -> CtxOut { self.out }
    pub closed spec fn work_dir_v(&self) -> PathV { self.work_dir.pv() }
    /// the immutable part: line ending, display path of the input, working directory
    pub closed spec fn meta(&self) -> (&'static str, String, AbsPath) {
        (self.line_ending, self.input_path, self.work_dir)
    }
    pub closed spec fn le_v(&self) -> Seq<char> { self.line_ending@ }
    /// A6: the line counter cannot overflow (a source has fewer than usize::MAX lines)
    pub closed spec fn line_budget_ok(&self) -> bool { self.cur_line + h_lines(&self.input).len() <= usize::MAX }
    /// the source lines not yet read (std `BufRead::lines`: terminators stripped)
    pub closed spec fn pending_lines(&self) -> Seq<Seq<char>> { h_lines(&self.input) }
}

/// policy (C10) for temp directives of a file whose directory is `wd`: outside clean mode a temp target may be created
/// and written, in clean mode it may be removed; targets are always resolved against `wd`.  WHICH names are used is
/// fixed by execute_directive_temp's contract: exactly the first argument of the temp directive being executed.
pub open spec fn temp_policy_ok(wd: PathV, clean: bool) -> bool {
    forall|x: Seq<char>| #![trigger path_of_chars(x)] {
        &&& (!clean ==> allowed_create(join_v(wd, path_of_chars(x))) && allowed_write(canon(join_v(wd, path_of_chars(x)))))
        &&& (clean ==> allowed_remove(canon(join_v(wd, path_of_chars(x)))))
    }
}

/// one more chunk written through the sink (the facts are write_output's postcondition)
pub proof fn lemma_after_writing_step(s0: CtxOut, s1: CtxOut, s2: CtxOut, t: Seq<u8>, c: Seq<u8>)
    requires
        s0.after_writing(&s1, t),
        s2.kind() == s1.kind(),
        s2.path_v() == s1.path_v(),
        s1.kind() is Build || s1.kind() is InMemoryBuild ==> s2.written() == s1.written() + c,
        s1.kind() is Verify ==> c.len() <= s1.unverified().len() && s1.unverified().take(c.len() as int) == c
            && s2.unverified() == s1.unverified().skip(c.len() as int),
    ensures
        s0.after_writing(&s2, t + c),
{
    if s0.kind() is Build || s0.kind() is InMemoryBuild {
        assert(s0.written() + (t + c) =~= (s0.written() + t) + c);
    }
    if s0.kind() is Verify {
        let u = s1.unverified();
        assert(u =~= u.take(c.len() as int) + u.skip(c.len() as int));
        assert((t + c) + s2.unverified() =~= t + (c + s2.unverified()));
    }
}

/// a successful done() on the last sink state establishes the final effect for everything written
pub proof fn lemma_final_effect(s0: CtxOut, s1: CtxOut, t: Seq<u8>)
    requires
        s0.after_writing(&s1, t),
        s0.kind() is Build || s0.kind() is InMemoryBuild ==> s0.written() == Seq::<u8>::empty(),
        // done()'s postcondition on success
        s1.kind() is Build ==> committed(s1.path_v(), s1.written()),
        s1.kind() is InMemoryBuild ==> (committed(s1.path_v(), s1.written()) || (fs_exists(s1.path_v()) && fs_bytes(s1.path_v()) == s1.written())),
        s1.kind() is Verify ==> s1.unverified().len() == 0,
    ensures
        s0.final_effect(t),
{
    if s0.kind() is Build || s0.kind() is InMemoryBuild {
        assert(Seq::<u8>::empty() + t =~= t);
    }
    if s0.kind() is Verify {
        assert(s1.unverified() =~= Seq::<u8>::empty());
        assert(t + Seq::<u8>::empty() =~= t);
    }
}
