// ---- spec/depmgr_shared.rs : shared by U7 (which defines `edge` on the real fields) and U15 (where it is abstract)
impl DepManager {
    /// every unfinished dependency of `a` is `f`
    pub open spec fn all_deps_are(&self, a: AbsPath, f: AbsPath) -> bool {
        forall|b: AbsPath| self.edge(a, b) ==> b == f
    }
}
