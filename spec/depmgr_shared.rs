// ---- spec/depmgr_shared.rs : shared by U7 (which defines `edge` on the real fields) and U15 (where it is abstract)
impl DepManager {
    /// `a` still waits for at least one dependency
    pub open spec fn waiting(&self, a: AbsPath) -> bool {
        exists|b: AbsPath| self.edge(a, b)
    }
    /// nobody waits for anything (no edge left)
    pub open spec fn no_edges(&self) -> bool {
        forall|a: AbsPath, b: AbsPath| !self.edge(a, b)
    }
    /// every unfinished dependency of `a` is `f`
    pub open spec fn all_deps_are(&self, a: AbsPath, f: AbsPath) -> bool {
        forall|b: AbsPath| self.edge(a, b) ==> b == f
    }
}
