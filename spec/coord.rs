// ---- spec/coord.rs : abstract view of the coordinator (execute/mod.rs): tasks handed to the worker pool whose
// result has not been received yet, and the worker contract A8.

pub enum TaskV {
    Scan(AbsPath),
    Pre(AbsPath, bool),   // (file, is_first_pass)
}

/// tasks spawned on the pool whose result message has not been received yet (ghost state carried by the
/// receiving end of the channel)
pub uninterp spec fn chan_pending(r: &std::sync::mpsc::Receiver<TaskResult>) -> Multiset<TaskV>;

/// tasks handed to the pool whose worker has not finished yet (it has not sent its result message); always part of
/// chan_pending.  `ThreadPool::join` waits until there is none.
pub uninterp spec fn chan_unsent(r: &std::sync::mpsc::Receiver<TaskResult>) -> Multiset<TaskV>;

/// A8: the message a worker sends for task `t`
pub closed spec fn result_matches(data: TaskResult, t: TaskV) -> bool {
    match t {
        TaskV::Scan(d) => data is ScanDir,
        // the worker sends what `preprocess(shell, f, mode, first, ..)` returned (proved for preprocess in unit U14)
        TaskV::Pre(f, first) => data is Preprocess && pp_result_matches(data->Preprocess_0, f, first),
    }
}

// ghost markers: WHY a run may fail.  Each can only be established by the corresponding event.
/// a worker reported an error (bad directive, failing command, I/O failure, verify mismatch, unreadable directory)
pub uninterp spec fn cause_worker_failed() -> bool;
/// the base directory or an input could not be resolved, or a path operation failed
pub uninterp spec fn cause_path_failed() -> bool;
/// all workers disconnected
pub uninterp spec fn cause_disconnected() -> bool;
/// unreleased waits were left after every task had completed: a dependency cycle
pub uninterp spec fn cause_cycle() -> bool;

/// the configured shell could not be resolved
pub uninterp spec fn cause_shell_unresolved() -> bool;

/// ghost marker: WHY a run may succeed.  It can only be established where nothing is pending, nobody waits and every
/// required file (named inputs, scanned files, reported dependencies) has completed its final pass.
pub uninterp spec fn success_justified() -> bool;

#[verifier::external_body]
pub proof fn mark_success(required: Set<AbsPath>, fin: Set<AbsPath>, pending: Multiset<TaskV>, no_waits: bool)
    requires
        pending.len() == 0,
        no_waits,
        forall|f: AbsPath| required.contains(f) ==> fin.contains(f),
    ensures
        success_justified(),
{
}

#[verifier::external_body]
pub proof fn mark_cycle(rem_nonempty: bool)
    requires
        rem_nonempty,
    ensures
        cause_cycle(),
{
}

// ---- C02: a second pass is started only when every dependency the file reported has completed
/// K: every reported dependency that has not finished yet is recorded as a wait edge; waits only come from reports
pub open spec fn waits_cover_reports(dm: &DepManager, reported: Map<AbsPath, Set<AbsPath>>) -> bool {
    &&& forall|a: AbsPath, b: AbsPath| #![trigger reported[a].contains(b)]
            reported.contains_key(a) && reported[a].contains(b) && !dm.fin().contains(b) ==> dm.edge(a, b)
    &&& forall|a: AbsPath, b: AbsPath| #[trigger] dm.edge(a, b) ==> reported.contains_key(a)
}

/// the file reported its dependencies and all of them have completed their final pass
pub open spec fn deps_all_finished(dm: &DepManager, reported: Map<AbsPath, Set<AbsPath>>, x: AbsPath) -> bool {
    reported.contains_key(x) && forall|b: AbsPath| reported[x].contains(b) ==> dm.fin().contains(b)
}

pub proof fn lemma_report(dm0: &DepManager, dm1: &DepManager, rep: Map<AbsPath, Set<AbsPath>>, x: AbsPath, deps: Seq<AbsPath>, r: bool)
    requires
        waits_cover_reports(dm0, rep),
        dm1.fin() == dm0.fin(),
        forall|a: AbsPath, b: AbsPath| dm1.edge(a, b) <==> (dm0.edge(a, b) || (a == x && deps.contains(b) && !dm0.fin().contains(b))),
        r <==> (exists|i: int| 0 <= i < deps.len() && !dm0.fin().contains(#[trigger] deps[i])),
    ensures
        waits_cover_reports(dm1, rep.insert(x, deps.to_set())),
        !r ==> deps_all_finished(dm1, rep.insert(x, deps.to_set()), x),
{
    let rep1 = rep.insert(x, deps.to_set());
    assert forall|a: AbsPath, b: AbsPath| rep1.contains_key(a) && #[trigger] rep1[a].contains(b) && !dm1.fin().contains(b) implies dm1.edge(a, b) by {
        if a == x {
            assert(deps.to_set().contains(b));
            assert(deps.contains(b));
        } else {
            assert(rep[a].contains(b));
        }
    }
    if !r {
        assert forall|b: AbsPath| rep1[x].contains(b) implies dm1.fin().contains(b) by {
            assert(deps.contains(b));
            let i = choose|i: int| 0 <= i < deps.len() && deps[i] == b;
            assert(dm0.fin().contains(deps[i]));
        }
    }
}

pub proof fn lemma_finish(dm0: &DepManager, dm1: &DepManager, rep: Map<AbsPath, Set<AbsPath>>, f: AbsPath, released: Set<AbsPath>)
    requires
        waits_cover_reports(dm0, rep),
        dm1.fin() == dm0.fin().insert(f),
        forall|a: AbsPath, b: AbsPath| dm1.edge(a, b) <==> (dm0.edge(a, b) && b != f),
        forall|a: AbsPath| released.contains(a) <==> (dm0.edge(a, f) && dm0.all_deps_are(a, f)),
    ensures
        waits_cover_reports(dm1, rep),
        forall|x: AbsPath| released.contains(x) ==> deps_all_finished(dm1, rep, x),
{
    assert forall|a: AbsPath, b: AbsPath| rep.contains_key(a) && #[trigger] rep[a].contains(b) && !dm1.fin().contains(b) implies dm1.edge(a, b) by {
        assert(dm0.edge(a, b));
    }
    assert forall|x: AbsPath| released.contains(x) implies deps_all_finished(dm1, rep, x) by {
        assert(dm0.edge(x, f));
        assert forall|b: AbsPath| rep[x].contains(b) implies dm1.fin().contains(b) by {
            if !dm1.fin().contains(b) {
                assert(dm0.edge(x, b));
                assert(b == f);
            }
        }
    }
}

// ---- C03: every file whose first pass was started is, at any time, (a) being processed, (b) waiting for a dependency,
// or (c) completed; so when nothing is pending and nobody waits, every one of them has completed
pub open spec fn file_state_ok(dm: &DepManager, pend: Multiset<TaskV>, f: AbsPath) -> bool {
    ||| pend.count(TaskV::Pre(f, true)) > 0
    ||| pend.count(TaskV::Pre(f, false)) > 0
    ||| dm.waiting(f)
    ||| dm.fin().contains(f)
}

/// ... for every started file except those in `ex` (files whose result is being handled right now)
pub open spec fn tracked_except(dm: &DepManager, pend: Multiset<TaskV>, files: Set<AbsPath>, ex: Set<AbsPath>) -> bool {
    forall|f: AbsPath| #[trigger] files.contains(f) && !ex.contains(f) ==> file_state_ok(dm, pend, f)
}

pub open spec fn task_files(t: TaskV) -> Set<AbsPath> {
    match t {
        TaskV::Scan(_) => Set::<AbsPath>::empty(),
        TaskV::Pre(f, _) => Set::<AbsPath>::empty().insert(f),
    }
}

/// execute_file's effect (its two postcondition cases) keeps the tracking
pub proof fn lemma_spawned(dm: &DepManager, p0: Multiset<TaskV>, p1: Multiset<TaskV>, f0: Set<AbsPath>, f1: Set<AbsPath>,
    ex: Set<AbsPath>, x: AbsPath, first: bool)
    requires
        tracked_except(dm, p0, f0, ex),
        (first && f0.contains(x)) ==> (p1 == p0 && f1 == f0 && !ex.contains(x)),
        !(first && f0.contains(x)) ==> (p1 == p0.insert(TaskV::Pre(x, first)) && f1 == (if first { f0.insert(x) } else { f0 })),
    ensures
        tracked_except(dm, p1, f1, ex.remove(x)),
        first ==> f1.contains(x),
        f0.subset_of(f1),
{
    assert forall|f: AbsPath| #[trigger] f1.contains(f) && !ex.remove(x).contains(f) implies file_state_ok(dm, p1, f) by {
        if f == x {
            if first && f0.contains(x) {
                assert(f0.contains(f) && !ex.contains(f));
            } else {
                assert(p1.count(TaskV::Pre(x, first)) > 0);
            }
        } else {
            assert(f0.contains(f) && !ex.contains(f));
            assert(file_state_ok(dm, p0, f));
            if !(first && f0.contains(x)) {
                assert(p1.count(TaskV::Pre(f, true)) >= p0.count(TaskV::Pre(f, true)));
                assert(p1.count(TaskV::Pre(f, false)) >= p0.count(TaskV::Pre(f, false)));
            }
        }
    }
}

/// a scan task handed to the pool does not touch any file's state
pub proof fn lemma_spawned_scan(dm: &DepManager, p0: Multiset<TaskV>, files: Set<AbsPath>, ex: Set<AbsPath>, d: AbsPath)
    requires
        tracked_except(dm, p0, files, ex),
    ensures
        tracked_except(dm, p0.insert(TaskV::Scan(d)), files, ex),
{
    let p1 = p0.insert(TaskV::Scan(d));
    assert forall|f: AbsPath| #[trigger] files.contains(f) && !ex.contains(f) implies file_state_ok(dm, p1, f) by {
        assert(file_state_ok(dm, p0, f));
        assert(p1.count(TaskV::Pre(f, true)) >= p0.count(TaskV::Pre(f, true)));
        assert(p1.count(TaskV::Pre(f, false)) >= p0.count(TaskV::Pre(f, false)));
    }
}

/// receiving the result of task t only unsettles the file of t
pub proof fn lemma_received(dm: &DepManager, p0: Multiset<TaskV>, files: Set<AbsPath>, t: TaskV)
    requires
        tracked_except(dm, p0, files, Set::<AbsPath>::empty()),
        p0.count(t) > 0,
    ensures
        tracked_except(dm, p0.remove(t), files, task_files(t)),
{
    let p1 = p0.remove(t);
    assert forall|f: AbsPath| #[trigger] files.contains(f) && !task_files(t).contains(f) implies file_state_ok(dm, p1, f) by {
        assert(file_state_ok(dm, p0, f));
        assert(t != TaskV::Pre(f, true) && t != TaskV::Pre(f, false));
        assert(p1.count(TaskV::Pre(f, true)) == p0.count(TaskV::Pre(f, true)));
        assert(p1.count(TaskV::Pre(f, false)) == p0.count(TaskV::Pre(f, false)));
    }
}

/// a first pass reported dependencies (add_dependency's postcondition): the file now waits, unless all are done
pub proof fn lemma_report_tracked(dm0: &DepManager, dm1: &DepManager, p: Multiset<TaskV>, files: Set<AbsPath>, x: AbsPath, deps: Seq<AbsPath>, r: bool)
    requires
        tracked_except(dm0, p, files, Set::<AbsPath>::empty().insert(x)),
        dm1.fin() == dm0.fin(),
        forall|a: AbsPath, b: AbsPath| dm1.edge(a, b) <==> (dm0.edge(a, b) || (a == x && deps.contains(b) && !dm0.fin().contains(b))),
        r <==> (exists|i: int| 0 <= i < deps.len() && !dm0.fin().contains(#[trigger] deps[i])),
    ensures
        r ==> tracked_except(dm1, p, files, Set::<AbsPath>::empty()),
        !r ==> tracked_except(dm1, p, files, Set::<AbsPath>::empty().insert(x)),
{
    assert forall|f: AbsPath| #[trigger] files.contains(f) && (f != x || r) implies file_state_ok(dm1, p, f) by {
        if f == x {
            let i = choose|i: int| 0 <= i < deps.len() && !dm0.fin().contains(#[trigger] deps[i]);
            assert(deps.contains(deps[i]));
            assert(dm1.edge(x, deps[i]));
        } else {
            assert(file_state_ok(dm0, p, f));
            if dm0.waiting(f) {
                let b = choose|b: AbsPath| dm0.edge(f, b);
                assert(dm1.edge(f, b));
            }
        }
    }
}

/// a final pass completed (notify_finish's postcondition): the file is done; whoever only waited for it is released
pub proof fn lemma_finish_tracked(dm0: &DepManager, dm1: &DepManager, p: Multiset<TaskV>, files: Set<AbsPath>, f: AbsPath, released: Set<AbsPath>)
    requires
        tracked_except(dm0, p, files, Set::<AbsPath>::empty().insert(f)),
        dm1.fin() == dm0.fin().insert(f),
        forall|a: AbsPath, b: AbsPath| dm1.edge(a, b) <==> (dm0.edge(a, b) && b != f),
        forall|a: AbsPath| released.contains(a) <==> (dm0.edge(a, f) && dm0.all_deps_are(a, f)),
    ensures
        tracked_except(dm1, p, files, released),
{
    assert forall|g: AbsPath| #[trigger] files.contains(g) && !released.contains(g) implies file_state_ok(dm1, p, g) by {
        if g != f {
            assert(file_state_ok(dm0, p, g));
            if dm0.waiting(g) && !dm0.fin().contains(g) {
                let b = choose|b: AbsPath| dm0.edge(g, b);
                if b != f {
                    assert(dm1.edge(g, b));
                } else {
                    // g waits for f but was not released: it waits for something else too
                    assert(!dm0.all_deps_are(g, f));
                    let b2 = choose|b2: AbsPath| dm0.edge(g, b2) && b2 != f;
                    assert(dm1.edge(g, b2));
                }
            }
        }
    }
}

/// nothing pending, nobody waiting: every started file has completed
pub proof fn lemma_all_completed(dm: &DepManager, p: Multiset<TaskV>, files: Set<AbsPath>)
    requires
        tracked_except(dm, p, files, Set::<AbsPath>::empty()),
        p.len() == 0,
        dm.no_edges(),
    ensures
        forall|f: AbsPath| files.contains(f) ==> dm.fin().contains(f),
{
    assert forall|f: AbsPath| files.contains(f) implies dm.fin().contains(f) by {
        assert(file_state_ok(dm, p, f));
        assert(p.count(TaskV::Pre(f, true)) == 0 && p.count(TaskV::Pre(f, false)) == 0) by {
            assert(p =~= Multiset::<TaskV>::empty());
        }
        if dm.waiting(f) {
            let b = choose|b: AbsPath| dm.edge(f, b);
            assert(false);
        }
    }
}

/// nothing pending: every started file has completed or still waits for a dependency (C05: when a cycle is reported,
/// the files that wait for nothing - in particular those that cannot reach the cycle's members through unfinished
/// dependencies - have been completed)
pub proof fn lemma_idle_state(dm: &DepManager, p: Multiset<TaskV>, files: Set<AbsPath>)
    requires
        tracked_except(dm, p, files, Set::<AbsPath>::empty()),
        p.len() == 0,
    ensures
        forall|f: AbsPath| files.contains(f) ==> dm.fin().contains(f) || dm.waiting(f),
{
    assert forall|f: AbsPath| files.contains(f) implies dm.fin().contains(f) || dm.waiting(f) by {
        assert(file_state_ok(dm, p, f));
        assert(p =~= Multiset::<TaskV>::empty());
    }
}

/// the files of a duplicate-free list that are still to be handled
pub proof fn lemma_skip_set(vs: Seq<AbsPath>, i: int)
    requires
        vs.no_duplicates(),
        0 <= i < vs.len(),
    ensures
        vs.skip(i).to_set().remove(vs[i]) =~= vs.skip(i + 1).to_set(),
{
    let a = vs.skip(i);
    let b = vs.skip(i + 1);
    assert forall|x: AbsPath| a.to_set().remove(vs[i]).contains(x) <==> b.to_set().contains(x) by {
        if a.to_set().remove(vs[i]).contains(x) {
            assert(a.contains(x));
            let j = choose|j: int| 0 <= j < a.len() && a[j] == x;
            assert(j != 0);
            assert(b[j - 1] == x);
            assert(b.contains(x));
        }
        if b.to_set().contains(x) {
            assert(b.contains(x));
            let j = choose|j: int| 0 <= j < b.len() && b[j] == x;
            assert(a[j + 1] == x);
            assert(a.contains(x));
            assert(vs[i + 1 + j] == x);
            assert(x != vs[i]);
        }
    }
}
