// ---- spec/coord.rs : abstract view of the coordinator (execute/mod.rs): tasks handed to the worker pool whose
// result has not been received yet, and the worker contract A8.

pub enum TaskV {
    Scan(AbsPath),
    Pre(AbsPath, bool),   // (file, is_first_pass)
}

/// tasks spawned on the pool whose result message has not been received yet (ghost state carried by the
/// receiving end of the channel)
pub uninterp spec fn chan_pending(r: &std::sync::mpsc::Receiver<TaskResult>) -> Multiset<TaskV>;

/// tasks handed to the pool whose worker has not finished yet (it has not sent its result message); always part of
/// chan_pending.  `ThreadPool::join` waits until there is none.
pub uninterp spec fn chan_unsent(r: &std::sync::mpsc::Receiver<TaskResult>) -> Multiset<TaskV>;

/// A8: the message a worker sends for task `t`
pub closed spec fn result_matches(data: TaskResult, t: TaskV) -> bool {
    match t {
        TaskV::Scan(d) => data is ScanDir,
        TaskV::Pre(f, first) => data is Preprocess && (match data->Preprocess_0 {
            // Pp::run_internal returns its own input file; only a first pass can report dependencies
            Ok(PpResult::Ok(g)) => g == f,
            Ok(PpResult::HasDeps(g, _)) => g == f && first,
            Err(_) => true,
        }),
    }
}

// ghost markers: WHY a run may fail.  Each can only be established by the corresponding event.
/// a worker reported an error (bad directive, failing command, I/O failure, verify mismatch, unreadable directory)
pub uninterp spec fn cause_worker_failed() -> bool;
/// the base directory or an input could not be resolved, or a path operation failed
pub uninterp spec fn cause_path_failed() -> bool;
/// all workers disconnected
pub uninterp spec fn cause_disconnected() -> bool;
/// unreleased waits were left after every task had completed: a dependency cycle
pub uninterp spec fn cause_cycle() -> bool;

/// the configured shell could not be resolved
pub uninterp spec fn cause_shell_unresolved() -> bool;

#[verifier::external_body]
pub proof fn mark_cycle(rem_nonempty: bool)
    requires
        rem_nonempty,
    ensures
        cause_cycle(),
{
}
