// ---- spec/coord.rs : abstract view of the coordinator (execute/mod.rs): tasks handed to the worker pool whose
// result has not been received yet, and the worker contract A8.

pub enum TaskV {
    Scan(AbsPath),
    Pre(AbsPath, bool),   // (file, is_first_pass)
}

/// tasks spawned on the pool whose result message has not been received yet (ghost state carried by the
/// receiving end of the channel)
pub uninterp spec fn chan_pending(r: &std::sync::mpsc::Receiver<TaskResult>) -> Multiset<TaskV>;

/// tasks handed to the pool whose worker has not finished yet (it has not sent its result message); always part of
/// chan_pending.  `ThreadPool::join` waits until there is none.
pub uninterp spec fn chan_unsent(r: &std::sync::mpsc::Receiver<TaskResult>) -> Multiset<TaskV>;

/// A8: the message a worker sends for task `t`
pub closed spec fn result_matches(data: TaskResult, t: TaskV) -> bool {
    match t {
        TaskV::Scan(d) => data is ScanDir,
        TaskV::Pre(f, first) => data is Preprocess && (match data->Preprocess_0 {
            // Pp::run_internal returns its own input file; only a first pass can report dependencies
            Ok(PpResult::Ok(g)) => g == f,
            Ok(PpResult::HasDeps(g, _)) => g == f && first,
            Err(_) => true,
        }),
    }
}

// ghost markers: WHY a run may fail.  Each can only be established by the corresponding event.
/// a worker reported an error (bad directive, failing command, I/O failure, verify mismatch, unreadable directory)
pub uninterp spec fn cause_worker_failed() -> bool;
/// the base directory or an input could not be resolved, or a path operation failed
pub uninterp spec fn cause_path_failed() -> bool;
/// all workers disconnected
pub uninterp spec fn cause_disconnected() -> bool;
/// unreleased waits were left after every task had completed: a dependency cycle
pub uninterp spec fn cause_cycle() -> bool;

/// the configured shell could not be resolved
pub uninterp spec fn cause_shell_unresolved() -> bool;

#[verifier::external_body]
pub proof fn mark_cycle(rem_nonempty: bool)
    requires
        rem_nonempty,
    ensures
        cause_cycle(),
{
}

// ---- C02: a second pass is started only when every dependency the file reported has completed
/// K: every reported dependency that has not finished yet is recorded as a wait edge; waits only come from reports
pub open spec fn waits_cover_reports(dm: &DepManager, reported: Map<AbsPath, Set<AbsPath>>) -> bool {
    &&& forall|a: AbsPath, b: AbsPath| #![trigger reported[a].contains(b)]
            reported.contains_key(a) && reported[a].contains(b) && !dm.fin().contains(b) ==> dm.edge(a, b)
    &&& forall|a: AbsPath, b: AbsPath| #[trigger] dm.edge(a, b) ==> reported.contains_key(a)
}

/// the file reported its dependencies and all of them have completed their final pass
pub open spec fn deps_all_finished(dm: &DepManager, reported: Map<AbsPath, Set<AbsPath>>, x: AbsPath) -> bool {
    reported.contains_key(x) && forall|b: AbsPath| reported[x].contains(b) ==> dm.fin().contains(b)
}

pub proof fn lemma_report(dm0: &DepManager, dm1: &DepManager, rep: Map<AbsPath, Set<AbsPath>>, x: AbsPath, deps: Seq<AbsPath>, r: bool)
    requires
        waits_cover_reports(dm0, rep),
        dm1.fin() == dm0.fin(),
        forall|a: AbsPath, b: AbsPath| dm1.edge(a, b) <==> (dm0.edge(a, b) || (a == x && deps.contains(b) && !dm0.fin().contains(b))),
        r <==> (exists|i: int| 0 <= i < deps.len() && !dm0.fin().contains(#[trigger] deps[i])),
    ensures
        waits_cover_reports(dm1, rep.insert(x, deps.to_set())),
        !r ==> deps_all_finished(dm1, rep.insert(x, deps.to_set()), x),
{
    let rep1 = rep.insert(x, deps.to_set());
    assert forall|a: AbsPath, b: AbsPath| rep1.contains_key(a) && #[trigger] rep1[a].contains(b) && !dm1.fin().contains(b) implies dm1.edge(a, b) by {
        if a == x {
            assert(deps.to_set().contains(b));
            assert(deps.contains(b));
        } else {
            assert(rep[a].contains(b));
        }
    }
    if !r {
        assert forall|b: AbsPath| rep1[x].contains(b) implies dm1.fin().contains(b) by {
            assert(deps.contains(b));
            let i = choose|i: int| 0 <= i < deps.len() && deps[i] == b;
            assert(dm0.fin().contains(deps[i]));
        }
    }
}

pub proof fn lemma_finish(dm0: &DepManager, dm1: &DepManager, rep: Map<AbsPath, Set<AbsPath>>, f: AbsPath, released: Set<AbsPath>)
    requires
        waits_cover_reports(dm0, rep),
        dm1.fin() == dm0.fin().insert(f),
        forall|a: AbsPath, b: AbsPath| dm1.edge(a, b) <==> (dm0.edge(a, b) && b != f),
        forall|a: AbsPath| released.contains(a) <==> (dm0.edge(a, f) && dm0.all_deps_are(a, f)),
    ensures
        waits_cover_reports(dm1, rep),
        forall|x: AbsPath| released.contains(x) ==> deps_all_finished(dm1, rep, x),
{
    assert forall|a: AbsPath, b: AbsPath| rep.contains_key(a) && #[trigger] rep[a].contains(b) && !dm1.fin().contains(b) implies dm1.edge(a, b) by {
        assert(dm0.edge(a, b));
    }
    assert forall|x: AbsPath| released.contains(x) implies deps_all_finished(dm1, rep, x) by {
        assert(dm0.edge(x, f));
        assert forall|b: AbsPath| rep[x].contains(b) implies dm1.fin().contains(b) by {
            if !dm1.fin().contains(b) {
                assert(dm0.edge(x, b));
                assert(b == f);
            }
        }
    }
}
