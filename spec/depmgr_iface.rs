// ---- spec/depmgr_iface.rs : DepManager's abstract view for units that only call it (its definitions and the proofs
// of the contracts are in unit U7)
impl DepManager {
    /// `a` waits for the unfinished dependency `b`
    pub uninterp spec fn edge(&self, a: AbsPath, b: AbsPath) -> bool;
    /// files whose final pass completed
    pub uninterp spec fn fin(&self) -> Set<AbsPath>;
    /// representation invariant
    pub uninterp spec fn wf(&self) -> bool;
}

pub open spec fn r_edge(m: Map<AbsPath, HashSet<AbsPath>>, a: AbsPath, b: AbsPath) -> bool {
    m.contains_key(a) && m[a]@.contains(b)
}
