// ---- spec/tags.rs : tag substitution on an ordinary line, defined by POSITION (unit U6).  Everything here is proved.
//
// C14: "substituted ... at its first occurrence in a later ordinary line, after which it no longer exists; several tags
// on one line are substituted left to right, an occurrence overlapped by an earlier substitution is left alone, and
// substituted text is never scanned again."   The definition scans the char positions of the line from left to right;
// nothing in it depends on the order in which a hash map enumerates the stored tags.

/// char index of the first occurrence of the tag name k in the line
pub open spec fn occ(line: Seq<char>, k: Seq<char>) -> Option<int> {
    pk_find(PatKind::Str(k), line)
}

pub open spec fn key_here(stored: Map<Seq<char>, Seq<char>>, line: Seq<char>, p: int, k: Seq<char>) -> bool {
    stored.contains_key(k) && occ(line, k) == Some(p)
}

/// the stored tag whose FIRST occurrence in the line starts at char index p (unique when the names are prefix-free)
pub open spec fn key_at(stored: Map<Seq<char>, Seq<char>>, line: Seq<char>, p: int) -> Option<Seq<char>> {
    if exists|k: Seq<char>| key_here(stored, line, p, k) {
        Some(choose|k: Seq<char>| key_here(stored, line, p, k))
    } else {
        None
    }
}

/// left-to-right scan from char position p; `last_end` is where the text not yet copied starts (the end of the previous
/// substitution).  Result: (text from last_end on, with substitutions; the tags that were used)
pub open spec fn inject_scan(stored: Map<Seq<char>, Seq<char>>, line: Seq<char>, le: Seq<char>, last_end: int, p: int) -> (Seq<char>, Set<Seq<char>>)
    decreases line.len() + 1 - p,
{
    if p < 0 || p > line.len() {
        (line.skip(last_end), Set::empty())
    } else {
        match key_at(stored, line, p) {
            Some(k) => {
                if p >= last_end {
                    // substituted: the value with the file's line ending and no added indentation; scanning resumes
                    // after the occurrence, the substituted text itself is never looked at
                    let r = inject_scan(stored, line, le, p + k.len(), p + 1);
                    (line.subrange(last_end, p) + spec_replace_le(stored[k], le, false) + r.0, r.1.insert(k))
                } else {
                    // overlapped by the previous substitution: left alone (and the tag stays stored)
                    inject_scan(stored, line, le, last_end, p + 1)
                }
            },
            None => inject_scan(stored, line, le, last_end, p + 1),
        }
    }
}

/// tag substitution on an ordinary line: (text, remaining stored tags)
pub open spec fn spec_inject(stored: Map<Seq<char>, Seq<char>>, line: Seq<char>, le: Seq<char>) -> (Seq<char>, Map<Seq<char>, Seq<char>>) {
    let r = inject_scan(stored, line, le, 0, 0);
    (r.0, stored.remove_keys(r.1))
}

// ------------------------------------------------------------------------------------------------ lemmas

/// two names whose first occurrences start at the same position are prefix-related
pub proof fn lemma_same_pos_prefix_related(line: Seq<char>, a: Seq<char>, b: Seq<char>, p: int)
    requires
        occ(line, a) == Some(p),
        occ(line, b) == Some(p),
    ensures
        prefix_related(a, b),
{
    lemma_pk_find_from(PatKind::Str(a), line, 0);
    lemma_pk_find_from(PatKind::Str(b), line, 0);
    assert(line.subrange(p, p + a.len()) == a);
    assert(line.subrange(p, p + b.len()) == b);
    if a.len() <= b.len() {
        assert(b.subrange(0, a.len() as int) =~= a);
    } else {
        assert(a.subrange(0, b.len() as int) =~= b);
    }
}

pub proof fn lemma_key_at_unique(stored: Map<Seq<char>, Seq<char>>, line: Seq<char>, p: int, k: Seq<char>)
    requires
        prefix_free(stored),
        key_here(stored, line, p, k),
    ensures
        key_at(stored, line, p) == Some(k),
{
    let c = choose|c: Seq<char>| key_here(stored, line, p, c);
    if c != k {
        lemma_same_pos_prefix_related(line, c, k, p);
    }
}

/// positions at which no stored tag has its first occurrence do not matter
pub proof fn lemma_scan_skip(stored: Map<Seq<char>, Seq<char>>, line: Seq<char>, le: Seq<char>, last_end: int, a: int, b: int)
    requires
        0 <= a <= b <= line.len() + 1,
        forall|q: int| a <= q < b ==> key_at(stored, line, q) is None,
    ensures
        inject_scan(stored, line, le, last_end, a) == inject_scan(stored, line, le, last_end, b),
    decreases b - a,
{
    if a < b {
        assert(key_at(stored, line, a) is None);
        lemma_scan_skip(stored, line, le, last_end, a + 1, b);
    }
}

/// C16 (used by spec/pp_lemmas.rs): with no stored tag a line is left alone
pub proof fn lemma_inject_empty(line: Seq<char>, le: Seq<char>)
    ensures
        spec_inject(Map::empty(), line, le) == (line, Map::<Seq<char>, Seq<char>>::empty()),
{
    let e = Map::<Seq<char>, Seq<char>>::empty();
    assert forall|q: int| 0 <= q < line.len() + 1 implies key_at(e, line, q) is None by {
        assert(forall|k: Seq<char>| !key_here(e, line, q, k));
    }
    lemma_scan_skip(e, line, le, 0, 0, line.len() as int + 1);
    assert(line.skip(0) =~= line);
    assert(e.remove_keys(Set::<Seq<char>>::empty()) =~= e);
}

/// a tag that does not occur in the line survives
pub proof fn lemma_scan_used_occur(stored: Map<Seq<char>, Seq<char>>, line: Seq<char>, le: Seq<char>, last_end: int, p: int, k: Seq<char>)
    requires
        inject_scan(stored, line, le, last_end, p).1.contains(k),
    ensures
        stored.contains_key(k),
        occ(line, k) is Some,
    decreases line.len() + 1 - p,
{
    if p < 0 || p > line.len() {
    } else {
        match key_at(stored, line, p) {
            Some(c) => {
                if p >= last_end {
                    let r = inject_scan(stored, line, le, p + c.len(), p + 1);
                    if k != c {
                        assert(r.1.contains(k));
                        lemma_scan_used_occur(stored, line, le, p + c.len(), p + 1, k);
                    } else {
                        assert(key_here(stored, line, p, c));
                    }
                } else {
                    lemma_scan_used_occur(stored, line, le, last_end, p + 1, k);
                }
            },
            None => lemma_scan_used_occur(stored, line, le, last_end, p + 1, k),
        }
    }
}

// ---- bytes <-> chars
pub proof fn lemma_blen_ge_len(s: Seq<char>)
    ensures
        blen(s) >= s.len(),
    decreases s.len(),
{
    broadcast use vstd::utf8::group_utf8_lib;
    if s.len() > 0 {
        assert(s =~= s.take(1) + s.skip(1));
        vstd::utf8::encode_utf8_concat(s.take(1), s.skip(1));
        lemma_blen_ge_len(s.skip(1));
        lemma_blen_one(s.take(1));
    } else {
        assert(s =~= Seq::<char>::empty());
    }
}

pub proof fn lemma_blen_one(s: Seq<char>)
    requires
        s.len() == 1,
    ensures
        blen(s) >= 1,
{
    broadcast use vstd::utf8::group_utf8_lib;
    vstd::utf8::encode_utf8_decode_utf8(s);
    if blen(s) == 0 {
        assert(vstd::utf8::encode_utf8(s) =~= Seq::<u8>::empty());
        assert(vstd::utf8::encode_utf8(Seq::<char>::empty()) =~= Seq::<u8>::empty());
        lemma_utf8_inj(s, Seq::<char>::empty());
    }
}

/// byte offsets of prefixes are strictly monotone in the char index
pub proof fn lemma_blen_take_mono(s: Seq<char>, a: int, b: int)
    requires
        0 <= a <= b <= s.len(),
    ensures
        blen(s.take(a)) + blen(s.subrange(a, b)) == blen(s.take(b)),
        a < b ==> blen(s.take(a)) < blen(s.take(b)),
        a == b ==> blen(s.take(a)) == blen(s.take(b)),
{
    assert(s.take(b) =~= s.take(a) + s.subrange(a, b));
    vstd::utf8::encode_utf8_concat(s.take(a), s.subrange(a, b));
    lemma_blen_ge_len(s.subrange(a, b));
}

/// the bytes between two char positions are the encoding of the chars between them
pub proof fn lemma_subrange_bytes(s: Seq<char>, a: int, b: int)
    requires
        0 <= a <= b <= s.len(),
    ensures
        blen(s.take(a)) <= blen(s.take(b)) <= blen(s),
        vstd::utf8::is_char_boundary(vstd::utf8::encode_utf8(s), blen(s.take(a)) as int),
        vstd::utf8::is_char_boundary(vstd::utf8::encode_utf8(s), blen(s.take(b)) as int),
        vstd::utf8::encode_utf8(s).subrange(blen(s.take(a)) as int, blen(s.take(b)) as int) == vstd::utf8::encode_utf8(s.subrange(a, b)),
{
    lemma_blen_take_mono(s, a, b);
    lemma_utf8_split(s, a);
    lemma_utf8_split(s, b);
    let sb = s.take(b);
    lemma_utf8_split(sb, a);
    assert(sb.take(a) =~= s.take(a));
    assert(sb.skip(a) =~= s.subrange(a, b));
    let bytes = vstd::utf8::encode_utf8(s);
    let x = blen(s.take(a)) as int;
    let y = blen(s.take(b)) as int;
    assert(bytes.subrange(0, y).subrange(x, y) =~= bytes.subrange(x, y));
}
