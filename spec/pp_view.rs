// ---- spec/pp_view.rs : views of the real Pp runtime types (pp/mod.rs) onto spec/pp.rs

pub open spec fn paths_v(v: Seq<AbsPath>) -> Seq<PathV> {
    v.map_values(|a: AbsPath| a.pv())
}

impl PpMode {
    pub closed spec fn view(&self) -> PpModeV {
        match self {
            PpMode::FirstPassExecute => PpModeV::FirstPass,
            PpMode::Execute => PpModeV::Execute,
            PpMode::CollectDeps(deps) => PpModeV::Collect(paths_v(deps@)),
        }
    }
}

pub open spec fn opt_dview(d: Option<Directive>) -> Option<DView> {
    match d {
        Some(x) => Some(x@),
        None => None,
    }
}

pub open spec fn opt_sview(s: Option<String>) -> Option<Seq<char>> {
    match s {
        Some(x) => Some(x@),
        None => None,
    }
}

/// the environment in which the directives of the source `f` are executed: its line ending (C12), its directory
/// (C17), its display path (TXTPP_FILE)
pub open spec fn file_env(f: AbsPath, sh: Shell, mode: Mode) -> EnvV {
    EnvV {
        mode,
        le: file_le(f.pv()),
        work_dir: canon(path_parent(f.pv())->Some_0),
        input_path: display_v(f),
        shell: sh,
    }
}

impl<'a> Pp<'a> {
    pub closed spec fn env_v(&self) -> EnvV {
        EnvV { mode: self.mode, le: self.context.le_v(), work_dir: self.context.work_dir_v(), input_path: self.context.meta().1@, shell: *self.shell }
    }

    /// everything that stays fixed while a file is processed
    pub closed spec fn frame(&self) -> (AbsPath, Mode, &'a Shell, (&'static str, String, AbsPath)) {
        (self.input_file, self.mode, self.shell, self.context.meta())
    }

    pub closed spec fn wf(&self) -> bool {
        &&& self.context.sink().wf()
        &&& self.context.sink().kind() == self.mode
        &&& self.context.line_budget_ok()
        // the open directive has its first argument, and more than one only if its kind is multi-line
        &&& (self.cur_directive is Some ==> dargs_ok(&self.cur_directive->Some_0))
        // the line that ended a directive is only kept while no directive is open
        &&& (self.execute_tail_line is Some ==> self.cur_directive is None)
        // the tag store's representation invariant (C14: stored names pairwise prefix-free), see spec/tags_wf.rs
        &&& tag_wf(tsv(&self.tag_state))
    }

    pub closed spec fn cur_v(&self) -> Option<DView> { opt_dview(self.cur_directive) }
    pub closed spec fn tail_v(&self) -> Option<Seq<char>> { opt_sview(self.execute_tail_line) }
    pub closed spec fn tags_v(&self) -> TagV { tsv(&self.tag_state) }
    pub closed spec fn ppm_v(&self) -> PpModeV { self.pp_mode@ }
    pub closed spec fn ctx(&self) -> IOCtx { self.context }
}
