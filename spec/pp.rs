// ---- spec/pp.rs : the preprocessor semantics of one .txtpp file (README "Directive Overview / Execution",
// "Tag Directive", "Output Specification"), as a pure function of the line list.  Directive execution is an
// uninterpreted function of the directive and the state (the file system and the commands are fixed during
// one call: A3/A4); unit U13 proves the real execute_directive against it.

pub enum PpModeV {
    FirstPass,
    Execute,
    Collect(Seq<PathV>),
}

pub open spec fn ppv_is_execute(p: PpModeV) -> bool {
    !(p is Collect)
}

pub struct TagV {
    pub listening: Option<Seq<char>>,
    pub stored: Map<Seq<char>, Seq<char>>,
}

pub open spec fn tagv_has_tags(t: TagV) -> bool {
    t.listening is Some || !(t.stored.dom() =~= Set::<Seq<char>>::empty())
}

/// what does not change during the processing of one file
pub struct EnvV {
    pub mode: Mode,
    pub le: Seq<char>,
    pub work_dir: PathV,
    pub input_path: Seq<char>,
    pub shell: Shell,
}

pub enum ExecRes {
    Err,
    NoOutput,
    Out(Seq<char>),
}

// ---- the world as directive execution sees it while ONE file is processed.  A3/A4: the file system (apart from
// txtpp's own writes) and the commands do not change during that time, so each observation is a FUNCTION of what
// is asked.  The functions are uninterpreted: the semantics below is stated relative to them.  What links them to
// the real calls is stated where the calls are specified (unit U13: try_resolve, read_to_string, share_base,
// get_txtpp_file, Shell::run, write_temp_file).
/// (is_txtpp_v(p): the path names a txtpp source - spec/txtpp_names.rs, proved against is_txtpp_file in unit U9)
/// the `.txtpp` source from which the file `p` is generated, if there is one (TxtppPath::get_txtpp_file)
pub uninterp spec fn w_get_txtpp(p: PathV) -> Option<PathV>;
/// the canonical form of a dependency path (AbsPath::share_base); None: it cannot be resolved
pub uninterp spec fn w_share(base: PathV, p: PathV) -> Option<PathV>;
/// the file an include argument designates (AbsPath::try_resolve, no creation); None: it cannot be resolved
pub uninterp spec fn w_resolve(base: PathV, rel: PathV) -> Option<PathV>;
/// (w_read_text(p): the text of a file, fs::read_to_string - prelude/std_fs.rs)
/// (w_run(sh, command, wd, file): the standard output of a command, None if it failed - spec/shell_world.rs)
/// whether the temp target `target` (relative to `wd`) can be brought to hold `content`
pub uninterp spec fn w_temp(wd: PathV, target: PathV, content: Seq<u8>) -> bool;

/// dependencies recorded so far
pub open spec fn ppv_deps(p: PpModeV) -> Seq<PathV> {
    match p {
        PpModeV::Collect(ds) => ds,
        _ => Seq::<PathV>::empty(),
    }
}

/// README "Tag Directive": a tag cannot be created while another waits for its content, nor when its name equals,
/// prefixes or is prefixed by a stored tag
pub open spec fn tag_create_rejected(tags: TagV, name: Seq<char>) -> bool {
    tags.listening is Some || exists|k: Seq<char>| tags.stored.contains_key(k) && prefix_related(k, name)
}

/// result of executing a complete directive: (result, tag state after, pp mode after).
/// README "Directive Overview / Execution" and each directive's BEHAVIOR paragraph.
#[verifier::opaque]
pub open spec fn exec_spec(d: DView, tags: TagV, pp: PpModeV, env: EnvV) -> (ExecRes, TagV, PpModeV) {
    if env.mode is Clean {
        // clean executes nothing (only a temp target is removed) and ignores every error
        (ExecRes::NoOutput, tags, pp)
    } else if !(pp is Execute) && (d.dtype is Include || d.dtype is After)
        && w_get_txtpp(join_v(env.work_dir, path_of_chars(d.args[0]))) is Some {
        // first pass: the target is generated from a .txtpp source: record the dependency, execute nothing
        match w_share(env.work_dir, w_get_txtpp(join_v(env.work_dir, path_of_chars(d.args[0])))->Some_0) {
            Some(p) => (ExecRes::NoOutput, tags, PpModeV::Collect(ppv_deps(pp).push(p))),
            None => (ExecRes::Err, tags, pp),
        }
    } else if pp is Collect {
        // dependencies are being collected: nothing is executed any more in this pass
        (ExecRes::NoOutput, tags, pp)
    } else {
        match d.dtype {
            DType::Empty | DType::After => (ExecRes::NoOutput, tags, pp),
            DType::Run => match w_run(env.shell, join_with(d.args, seq![' ']), env.work_dir, env.input_path) {
                Some(o) => (ExecRes::Out(o), tags, pp),
                None => (ExecRes::Err, tags, pp),
            },
            DType::Include => match w_resolve(env.work_dir, path_of_chars(d.args[0])) {
                Some(p) => match w_read_text(p) {
                    Some(t) => (ExecRes::Out(t), tags, pp),
                    None => (ExecRes::Err, tags, pp),
                },
                None => (ExecRes::Err, tags, pp),
            },
            DType::Temp => {
                if !is_txtpp_v(path_of_chars(d.args[0]))
                    && w_temp(env.work_dir, path_of_chars(d.args[0]), vstd::utf8::encode_utf8(spec_fmt_out(Seq::<char>::empty(), d.args.skip(1), false, env.le))) {
                    (ExecRes::NoOutput, tags, pp)
                } else {
                    (ExecRes::Err, tags, pp)
                }
            },
            DType::Tag => {
                if tag_create_rejected(tags, d.args[0]) {
                    (ExecRes::Err, tags, pp)
                } else {
                    (ExecRes::NoOutput, TagV { listening: Some(d.args[0]), stored: tags.stored }, pp)
                }
            },
            DType::Write => (ExecRes::Out(join_with(d.args, seq!['\n'])), tags, pp),
        }
    }
}

/// tag substitution on an ordinary line: (text, remaining stored tags)   [defined in spec/tags.rs]
pub uninterp spec fn spec_inject(stored: Map<Seq<char>, Seq<char>>, line: Seq<char>, le: Seq<char>) -> (Seq<char>, Map<Seq<char>, Seq<char>>);

pub struct Acc {
    /// text written to the output so far
    pub out: Seq<char>,
    /// the last thing written was a complete line whose terminator has not been emitted yet
    pub pending: bool,
    pub cur: Option<DView>,
    pub tags: TagV,
    pub pp: PpModeV,
}

pub enum Step {
    Fail,
    Cont(Acc),
}

pub open spec fn acc0(first_pass: bool) -> Acc {
    Acc {
        out: Seq::empty(),
        pending: false,
        cur: None,
        tags: TagV { listening: None, stored: Map::empty() },
        pp: if first_pass { PpModeV::FirstPass } else { PpModeV::Execute },
    }
}

/// write `x`; a pending line terminator is emitted first; nothing is written while only collecting dependencies
pub open spec fn emit(a: Acc, x: Seq<char>, has_tail: bool, env: EnvV) -> Acc {
    if ppv_is_execute(a.pp) {
        Acc { out: a.out + (if a.pending { env.le } else { Seq::<char>::empty() }) + x, pending: !has_tail, ..a }
    } else {
        a
    }
}

/// something to be written: (text, the directive that produced it was ended by a following line)
pub type Wr = Option<(Seq<char>, bool)>;

pub open spec fn emit_opt(a: Acc, w: Wr, env: EnvV) -> Acc {
    match w {
        Some(x) => emit(a, x.0, x.1, env),
        None => a,
    }
}

/// result of one transition: the state, and what it wants written
pub enum StepW {
    Fail,
    Cont(Acc, Wr),
}

pub open spec fn apply_w(s: StepW, env: EnvV) -> Step {
    match s {
        StepW::Fail => Step::Fail,
        StepW::Cont(a, w) => Step::Cont(emit_opt(a, w, env)),
    }
}

/// an ordinary text line: tags are substituted, the line is to be written
pub open spec fn text_w(a: Acc, l: Seq<char>, env: EnvV) -> StepW {
    if ppv_is_execute(a.pp) {
        let r = spec_inject(a.tags.stored, l, env.le);
        StepW::Cont(Acc { tags: TagV { stored: r.1, ..a.tags }, ..a }, Some((r.0, false)))
    } else {
        StepW::Cont(a, Some((l, false)))
    }
}

/// a directive is complete: execute it; its output goes to a listening tag, else (indented) to the file
pub open spec fn run_directive_w(a: Acc, d: DView, has_tail: bool, env: EnvV) -> StepW {
    let r = exec_spec(d, a.tags, a.pp, env);
    match r.0 {
        ExecRes::Err => StepW::Fail,
        ExecRes::NoOutput => StepW::Cont(Acc { cur: None, tags: r.1, pp: r.2, ..a }, None),
        ExecRes::Out(raw) => {
            if r.1.listening is Some {
                StepW::Cont(Acc { cur: None, tags: TagV { listening: None, stored: r.1.stored.insert(r.1.listening->Some_0, raw) }, pp: r.2, ..a }, None)
            } else {
                StepW::Cont(Acc { cur: None, tags: r.1, pp: r.2, ..a }, Some((spec_fmt_out(d.ws, lines_of(raw), ends_with_nl(raw), env.le), has_tail)))
            }
        },
    }
}

pub open spec fn run_directive(a: Acc, d: DView, has_tail: bool, env: EnvV) -> Step {
    apply_w(run_directive_w(a, d, has_tail, env), env)
}

/// a line seen while no directive is open
pub open spec fn step_fresh_w(a: Acc, l: Seq<char>, env: EnvV) -> StepW {
    match spec_detect(l) {
        Some(d) => {
            if spec_multi_line(d.dtype) && d.prefix.len() == 0 {
                // a multi-line directive needs a prefix; clean ignores the error and treats the line as empty text
                if env.mode is Clean { text_w(a, Seq::<char>::empty(), env) } else { StepW::Fail }
            } else {
                StepW::Cont(Acc { cur: Some(d), ..a }, None)
            }
        },
        None => text_w(a, l, env),
    }
}

pub open spec fn step_fresh(a: Acc, l: Seq<char>, env: EnvV) -> Step {
    apply_w(step_fresh_w(a, l, env), env)
}

/// one source line
pub open spec fn step_line(a: Acc, l: Seq<char>, env: EnvV) -> Step {
    match a.cur {
        None => step_fresh(a, l, env),
        Some(d) => match spec_continue(d, l) {
            Some(arg) => Step::Cont(Acc { cur: Some(DView { args: d.args.push(arg), ..d }), ..a }),
            None => match run_directive(a, d, true, env) {
                Step::Fail => Step::Fail,
                Step::Cont(a2) => step_fresh(a2, l, env),
            },
        },
    }
}

/// the remaining source lines, in order
#[verifier::opaque]
pub open spec fn run_lines(a: Acc, lines: Seq<Seq<char>>, env: EnvV) -> Step
    decreases lines.len(),
{
    if lines.len() == 0 {
        Step::Cont(a)
    } else {
        match step_line(a, lines[0], env) {
            Step::Fail => Step::Fail,
            Step::Cont(a2) => run_lines(a2, lines.skip(1), env),
        }
    }
}

pub enum Final {
    Err,
    HasDeps(Seq<PathV>),
    Done(Seq<char>),
}

/// end of file: an open directive is executed, unused tags are an error, the option decides the last terminator
#[verifier::opaque]
pub open spec fn finish(a: Acc, trailing_newline: bool, env: EnvV) -> Final {
    let s = match a.cur {
        Some(d) => run_directive(a, d, false, env),
        None => Step::Cont(a),
    };
    match s {
        Step::Fail => Final::Err,
        Step::Cont(b) => match b.pp {
            PpModeV::Collect(deps) => Final::HasDeps(deps),
            _ => {
                if tagv_has_tags(b.tags) && !(env.mode is Clean) {
                    Final::Err
                } else {
                    Final::Done(b.out + (if b.pending && trailing_newline { env.le } else { Seq::<char>::empty() }))
                }
            },
        },
    }
}

/// the whole file
pub open spec fn spec_pp(lines: Seq<Seq<char>>, first_pass: bool, trailing_newline: bool, env: EnvV) -> Final {
    cont_lines(acc0(first_pass), lines, trailing_newline, env)
}

/// the result of the whole run when continuing from state `a` with `lines` still unread
#[verifier::opaque]
pub open spec fn cont_lines(a: Acc, lines: Seq<Seq<char>>, trailing_newline: bool, env: EnvV) -> Final {
    match run_lines(a, lines, env) {
        Step::Fail => Final::Err,
        Step::Cont(b) => finish(b, trailing_newline, env),
    }
}

/// ... when, in addition, `tail` (the line that ended the previous directive) has still to be looked at
#[verifier::opaque]
pub open spec fn resume(a: Acc, tail: Option<Seq<char>>, lines: Seq<Seq<char>>, trailing_newline: bool, env: EnvV) -> Final {
    match tail {
        Some(t) => match step_fresh(a, t, env) {
            Step::Fail => Final::Err,
            Step::Cont(a2) => cont_lines(a2, lines, trailing_newline, env),
        },
        None => cont_lines(a, lines, trailing_newline, env),
    }
}


/// One step of the continuation: what `resume` equals after the next line (the kept tail line, else the next
/// source line, else end of file) has been taken.  Proved by unfolding the definitions once.
pub proof fn lemma_resume_step(a: Acc, tail: Option<Seq<char>>, pend: Seq<Seq<char>>, tn: bool, env: EnvV)
    ensures
        (match tail {
            Some(t) => resume(a, tail, pend, tn, env) == (match step_fresh_w(a, t, env) {
                StepW::Fail => Final::Err,
                StepW::Cont(a2, w) => resume(emit_opt(a2, w, env), None, pend, tn, env),
            }),
            None => if pend.len() > 0 {
                resume(a, tail, pend, tn, env) == (match a.cur {
                    None => (match step_fresh_w(a, pend[0], env) {
                        StepW::Fail => Final::Err,
                        StepW::Cont(a2, w) => resume(emit_opt(a2, w, env), None, pend.skip(1), tn, env),
                    }),
                    Some(d) => (match spec_continue(d, pend[0]) {
                        Some(arg) => resume(Acc { cur: Some(DView { args: d.args.push(arg), ..d }), ..a }, None, pend.skip(1), tn, env),
                        None => (match run_directive_w(a, d, true, env) {
                            StepW::Fail => Final::Err,
                            StepW::Cont(a2, w) => resume(emit_opt(a2, w, env), Some(pend[0]), pend.skip(1), tn, env),
                        }),
                    }),
                })
            } else {
                // end of file: an open directive is executed (and the loop comes back once more), else finish
                match a.cur {
                    Some(d) => resume(a, tail, pend, tn, env) == (match run_directive_w(a, d, false, env) {
                        StepW::Fail => Final::Err,
                        StepW::Cont(a2, w) => resume(emit_opt(a2, w, env), None, pend, tn, env),
                    }),
                    None => resume(a, tail, pend, tn, env) == finish(a, tn, env),
                }
            },
        }),
{
    reveal(resume);
    reveal(cont_lines);
    reveal(run_lines);
    reveal(finish);
}

/// the whole-file spec is the continuation from the initial state
pub proof fn lemma_spec_pp_is_resume(lines: Seq<Seq<char>>, first_pass: bool, tn: bool, env: EnvV)
    ensures
        spec_pp(lines, first_pass, tn, env) == resume(acc0(first_pass), None, lines, tn, env),
{
    reveal(resume);
}
