// ---- spec/pp.rs : the preprocessor semantics of one .txtpp file (README "Directive Overview / Execution",
// "Tag Directive", "Output Specification"), as a pure function of the line list.  Directive execution is an
// uninterpreted function of the directive and the state (the file system and the commands are fixed during
// one call: A3/A4); unit U13 proves the real execute_directive against it.

pub enum PpModeV {
    FirstPass,
    Execute,
    Collect(Seq<PathV>),
}

pub open spec fn ppv_is_execute(p: PpModeV) -> bool {
    !(p is Collect)
}

pub struct TagV {
    pub listening: Option<Seq<char>>,
    pub stored: Map<Seq<char>, Seq<char>>,
}

pub open spec fn tagv_has_tags(t: TagV) -> bool {
    t.listening is Some || !(t.stored.dom() =~= Set::<Seq<char>>::empty())
}

/// what does not change during the processing of one file
pub struct EnvV {
    pub mode: Mode,
    pub le: Seq<char>,
    pub work_dir: PathV,
    pub input_path: Seq<char>,
}

pub enum ExecRes {
    Err,
    NoOutput,
    Out(Seq<char>),
}

/// result of executing a complete directive: (result, tag state after, pp mode after)
pub uninterp spec fn exec_spec(d: DView, tags: TagV, pp: PpModeV, env: EnvV) -> (ExecRes, TagV, PpModeV);

/// tag substitution on an ordinary line: (text, remaining stored tags)   [defined in spec/tags.rs]
pub uninterp spec fn spec_inject(stored: Map<Seq<char>, Seq<char>>, line: Seq<char>, le: Seq<char>) -> (Seq<char>, Map<Seq<char>, Seq<char>>);

pub struct Acc {
    /// text written to the output so far
    pub out: Seq<char>,
    /// the last thing written was a complete line whose terminator has not been emitted yet
    pub pending: bool,
    pub cur: Option<DView>,
    pub tags: TagV,
    pub pp: PpModeV,
}

pub enum Step {
    Fail,
    Cont(Acc),
}

pub open spec fn acc0(first_pass: bool) -> Acc {
    Acc {
        out: Seq::empty(),
        pending: false,
        cur: None,
        tags: TagV { listening: None, stored: Map::empty() },
        pp: if first_pass { PpModeV::FirstPass } else { PpModeV::Execute },
    }
}

/// write `x`; a pending line terminator is emitted first; nothing is written while only collecting dependencies
pub open spec fn emit(a: Acc, x: Seq<char>, has_tail: bool, env: EnvV) -> Acc {
    if ppv_is_execute(a.pp) {
        Acc { out: a.out + (if a.pending { env.le } else { Seq::<char>::empty() }) + x, pending: !has_tail, ..a }
    } else {
        a
    }
}

/// an ordinary text line: tags are substituted, the line is written
pub open spec fn emit_text(a: Acc, l: Seq<char>, env: EnvV) -> Acc {
    if ppv_is_execute(a.pp) {
        let r = spec_inject(a.tags.stored, l, env.le);
        emit(Acc { tags: TagV { stored: r.1, ..a.tags }, ..a }, r.0, false, env)
    } else {
        a
    }
}

/// a directive is complete: execute it; its output goes to a listening tag, else (indented) to the file
pub open spec fn run_directive(a: Acc, d: DView, has_tail: bool, env: EnvV) -> Step {
    let r = exec_spec(d, a.tags, a.pp, env);
    match r.0 {
        ExecRes::Err => Step::Fail,
        ExecRes::NoOutput => Step::Cont(Acc { cur: None, tags: r.1, pp: r.2, ..a }),
        ExecRes::Out(raw) => {
            if r.1.listening is Some {
                Step::Cont(Acc { cur: None, tags: TagV { listening: None, stored: r.1.stored.insert(r.1.listening->Some_0, raw) }, pp: r.2, ..a })
            } else {
                Step::Cont(emit(Acc { cur: None, tags: r.1, pp: r.2, ..a }, spec_fmt_out(d.ws, lines_of(raw), ends_with_nl(raw), env.le), has_tail, env))
            }
        },
    }
}

/// a line seen while no directive is open
pub open spec fn step_fresh(a: Acc, l: Seq<char>, env: EnvV) -> Step {
    match spec_detect(l) {
        Some(d) => {
            if spec_multi_line(d.dtype) && d.prefix.len() == 0 {
                // a multi-line directive needs a prefix; clean ignores the error and treats the line as empty text
                if env.mode is Clean { Step::Cont(emit_text(a, Seq::<char>::empty(), env)) } else { Step::Fail }
            } else {
                Step::Cont(Acc { cur: Some(d), ..a })
            }
        },
        None => Step::Cont(emit_text(a, l, env)),
    }
}

/// one source line
pub open spec fn step_line(a: Acc, l: Seq<char>, env: EnvV) -> Step {
    match a.cur {
        None => step_fresh(a, l, env),
        Some(d) => match spec_continue(d, l) {
            Some(arg) => Step::Cont(Acc { cur: Some(DView { args: d.args.push(arg), ..d }), ..a }),
            None => match run_directive(a, d, true, env) {
                Step::Fail => Step::Fail,
                Step::Cont(a2) => step_fresh(a2, l, env),
            },
        },
    }
}

pub open spec fn run_lines(a: Acc, lines: Seq<Seq<char>>, from: int, env: EnvV) -> Step
    decreases lines.len() - from,
{
    if from < 0 || from >= lines.len() {
        Step::Cont(a)
    } else {
        match step_line(a, lines[from], env) {
            Step::Fail => Step::Fail,
            Step::Cont(a2) => run_lines(a2, lines, from + 1, env),
        }
    }
}

pub enum Final {
    Err,
    HasDeps(Seq<PathV>),
    Done(Seq<char>),
}

/// end of file: an open directive is executed, unused tags are an error, the option decides the last terminator
pub open spec fn finish(a: Acc, trailing_newline: bool, env: EnvV) -> Final {
    let s = match a.cur {
        Some(d) => run_directive(a, d, false, env),
        None => Step::Cont(a),
    };
    match s {
        Step::Fail => Final::Err,
        Step::Cont(b) => match b.pp {
            PpModeV::Collect(deps) => Final::HasDeps(deps),
            _ => {
                if tagv_has_tags(b.tags) && !(env.mode is Clean) {
                    Final::Err
                } else {
                    Final::Done(b.out + (if b.pending && trailing_newline { env.le } else { Seq::<char>::empty() }))
                }
            },
        },
    }
}

/// the whole file
pub open spec fn spec_pp(lines: Seq<Seq<char>>, first_pass: bool, trailing_newline: bool, env: EnvV) -> Final {
    match run_lines(acc0(first_pass), lines, 0, env) {
        Step::Fail => Final::Err,
        Step::Cont(a) => finish(a, trailing_newline, env),
    }
}
