// ---- spec/lines.rs : std `str::lines()` semantics and joining, over Seq<char> (pure spec + proved lemmas)

/// strip one trailing '\r'
pub open spec fn strip_cr(s: Seq<char>) -> Seq<char> {
    if s.len() > 0 && s.last() == '\r' { s.drop_last() } else { s }
}

/// std `str::lines()`: split at every '\n'; each piece loses one trailing '\r'; a final empty piece is dropped
pub open spec fn lines_of(t: Seq<char>) -> Seq<Seq<char>>
    decreases t.len(),
{
    if t.len() == 0 {
        Seq::empty()
    } else {
        match pk_find(PatKind::Pred(char_pred('\n')), t) {
            Some(i) => if 0 <= i < t.len() { seq![strip_cr(t.take(i))] + lines_of(t.skip(i + 1)) } else { seq![t] },
            None => seq![t],
        }
    }
}

/// `parts.join(sep)`
pub open spec fn join_with(parts: Seq<Seq<char>>, sep: Seq<char>) -> Seq<char>
    decreases parts.len(),
{
    if parts.len() == 0 {
        Seq::empty()
    } else if parts.len() == 1 {
        parts[0]
    } else {
        parts[0] + sep + join_with(parts.skip(1), sep)
    }
}

pub open spec fn ends_with_nl(t: Seq<char>) -> bool {
    t.len() > 0 && t.last() == '\n'
}

/// str::replace_line_ending (string.rs): lines re-joined with `le`, plus a terminator iff the text ended
/// with '\n' or one is forced
pub open spec fn spec_replace_le(t: Seq<char>, le: Seq<char>, force: bool) -> Seq<char> {
    join_with(lines_of(t), le) + (if force || ends_with_nl(t) { le } else { Seq::<char>::empty() })
}

/// Pp::format_directive_output (README "Execution"): every line of the directive output is prepended with
/// the directive's leading whitespace, line endings are normalised, a trailing newline is kept iff present
pub open spec fn spec_fmt_out(ws: Seq<char>, lines: Seq<Seq<char>>, trailing: bool, le: Seq<char>) -> Seq<char> {
    join_with(lines.map_values(|l: Seq<char>| ws + l), le) + (if trailing { le } else { Seq::<char>::empty() })
}

/// the strings an `impl Iterator<Item = impl AsRef<str>>` value yields, in order
pub uninterp spec fn iter_strs<I>(i: I) -> Seq<Seq<char>>;

/// a line as produced by `BufRead::lines`: no line feed inside
pub open spec fn no_nl(l: Seq<char>) -> bool { !l.contains('\n') }
pub open spec fn lines_clean(ls: Seq<Seq<char>>) -> bool { forall|i: int| 0 <= i < ls.len() ==> no_nl(#[trigger] ls[i]) }

/// every line followed by the separator
pub open spec fn each_with(parts: Seq<Seq<char>>, sep: Seq<char>) -> Seq<char>
    decreases parts.len(),
{
    if parts.len() == 0 { Seq::empty() } else { each_with(parts.drop_last(), sep) + parts.last() + sep }
}

pub proof fn lemma_join_is_each_then_last(parts: Seq<Seq<char>>, sep: Seq<char>)
    requires
        parts.len() > 0,
    ensures
        join_with(parts, sep) == each_with(parts.drop_last(), sep) + parts.last(),
    decreases parts.len(),
{
    if parts.len() == 1 {
        assert(parts.drop_last().len() == 0);
        assert(Seq::<char>::empty() + parts.last() =~= parts[0]);
    } else {
        let rest = parts.skip(1);
        lemma_join_is_each_then_last(rest, sep);
        lemma_each_with_prepend(parts[0], rest.drop_last(), sep);
        assert(parts.drop_last() =~= seq![parts[0]] + rest.drop_last());
        assert(rest.last() == parts.last());
        assert(parts[0] + sep + (each_with(rest.drop_last(), sep) + rest.last()) =~= (parts[0] + sep + each_with(rest.drop_last(), sep)) + parts.last());
    }
}

pub proof fn lemma_each_with_prepend(first: Seq<char>, rest: Seq<Seq<char>>, sep: Seq<char>)
    ensures
        each_with(seq![first] + rest, sep) == first + sep + each_with(rest, sep),
    decreases rest.len(),
{
    let all = seq![first] + rest;
    if rest.len() == 0 {
        assert(all.drop_last() =~= Seq::<Seq<char>>::empty());
        assert(all.last() == first);
        assert(each_with(all.drop_last(), sep) =~= Seq::<char>::empty());
        assert(Seq::<char>::empty() + first + sep =~= first + sep + Seq::<char>::empty());
    } else {
        assert(all.drop_last() =~= seq![first] + rest.drop_last());
        assert(all.last() == rest.last());
        lemma_each_with_prepend(first, rest.drop_last(), sep);
        assert((first + sep + each_with(rest.drop_last(), sep)) + rest.last() + sep =~= first + sep + (each_with(rest.drop_last(), sep) + rest.last() + sep));
    }
}
