// ---- spec/lines.rs : std `str::lines()` semantics and joining, over Seq<char> (pure spec + proved lemmas)

/// strip one trailing '\r'
pub open spec fn strip_cr(s: Seq<char>) -> Seq<char> {
    if s.len() > 0 && s.last() == '\r' { s.drop_last() } else { s }
}

/// std `str::lines()`: split at every '\n'; each piece loses one trailing '\r'; a final empty piece is dropped
pub open spec fn lines_of(t: Seq<char>) -> Seq<Seq<char>>
    decreases t.len(),
{
    if t.len() == 0 {
        Seq::empty()
    } else {
        match pk_find(PatKind::Pred(char_pred('\n')), t) {
            Some(i) => if 0 <= i < t.len() { seq![strip_cr(t.take(i))] + lines_of(t.skip(i + 1)) } else { seq![t] },
            None => seq![t],
        }
    }
}

/// `parts.join(sep)`
pub open spec fn join_with(parts: Seq<Seq<char>>, sep: Seq<char>) -> Seq<char>
    decreases parts.len(),
{
    if parts.len() == 0 {
        Seq::empty()
    } else if parts.len() == 1 {
        parts[0]
    } else {
        parts[0] + sep + join_with(parts.skip(1), sep)
    }
}

pub open spec fn ends_with_nl(t: Seq<char>) -> bool {
    t.len() > 0 && t.last() == '\n'
}

/// str::replace_line_ending (string.rs): lines re-joined with `le`, plus a terminator iff the text ended
/// with '\n' or one is forced
pub open spec fn spec_replace_le(t: Seq<char>, le: Seq<char>, force: bool) -> Seq<char> {
    join_with(lines_of(t), le) + (if force || ends_with_nl(t) { le } else { Seq::<char>::empty() })
}

/// Pp::format_directive_output (README "Execution"): every line of the directive output is prepended with
/// the directive's leading whitespace, line endings are normalised, a trailing newline is kept iff present
pub open spec fn spec_fmt_out(ws: Seq<char>, lines: Seq<Seq<char>>, trailing: bool, le: Seq<char>) -> Seq<char> {
    join_with(lines.map_values(|l: Seq<char>| ws + l), le) + (if trailing { le } else { Seq::<char>::empty() })
}

/// the strings an `impl Iterator<Item = impl AsRef<str>>` value yields, in order
pub uninterp spec fn iter_strs<I>(i: I) -> Seq<Seq<char>>;

/// a line as produced by `BufRead::lines`: no line feed inside
pub open spec fn no_nl(l: Seq<char>) -> bool { !l.contains('\n') }
pub open spec fn lines_clean(ls: Seq<Seq<char>>) -> bool { forall|i: int| 0 <= i < ls.len() ==> no_nl(#[trigger] ls[i]) }
