// ---- spec/pp_lemmas.rs : property statements as lemmas over spec_pp (proved, no assumptions)

/// C13: the trailing-newline option controls one final line ending and nothing else
pub proof fn lemma_c13_trailing_newline(lines: Seq<Seq<char>>, first_pass: bool, env: EnvV)
    ensures
        ({
            let on = spec_pp(lines, first_pass, true, env);
            let off = spec_pp(lines, first_pass, false, env);
            &&& (on is Err <==> off is Err)
            &&& (on is HasDeps <==> off is HasDeps)
            &&& (on is HasDeps ==> on == off)
            &&& (on is Done <==> off is Done)
            // identical except for at most that single line ending at the very end
            &&& (on is Done ==> (on->Done_0 == off->Done_0 || on->Done_0 == off->Done_0 + env.le))
        }),   // @ob C13.lemma.option_controls_only_final_le
{
    reveal(cont_lines);
    reveal(finish);
    let s = run_lines(acc0(first_pass), lines, env);
    match s {
        Step::Fail => {},
        Step::Cont(a) => {
            let b = match a.cur { Some(d) => run_directive(a, d, false, env), None => Step::Cont(a) };
            match b {
                Step::Fail => {},
                Step::Cont(c) => {
                    assert(c.out + Seq::<char>::empty() =~= c.out);
                },
            }
        },
    }
}

/// state while copying plain text in the final pass: nothing open, no tags
pub open spec fn plain_acc(a: Acc) -> bool {
    a.cur is None && a.tags == (TagV { listening: None, stored: Map::empty() }) && a.pp is Execute
}

/// text of `lines` written after `a`: each line, separated (and preceded, if a terminator is pending) by le
pub open spec fn plain_out(a: Acc, lines: Seq<Seq<char>>, le: Seq<char>) -> Seq<char>
    decreases lines.len(),
{
    if lines.len() == 0 {
        a.out
    } else {
        plain_out(Acc { out: a.out + (if a.pending { le } else { Seq::<char>::empty() }) + lines[0], pending: true, ..a }, lines.skip(1), le)
    }
}

pub proof fn lemma_plain_run(a: Acc, lines: Seq<Seq<char>>, env: EnvV)
    requires
        plain_acc(a),
        forall|i: int| 0 <= i < lines.len() ==> spec_detect(#[trigger] lines[i]) is None,
        // no tag is stored, so substitution leaves a line alone (discharged from spec_inject's definition in U6)
        forall|l: Seq<char>| #[trigger] spec_inject(Map::empty(), l, env.le) == (l, Map::<Seq<char>, Seq<char>>::empty()),
    ensures
        run_lines(a, lines, env) is Cont,
        plain_acc(run_lines(a, lines, env)->Cont_0),
        (run_lines(a, lines, env)->Cont_0).out == plain_out(a, lines, env.le),
        (run_lines(a, lines, env)->Cont_0).pending == (a.pending || lines.len() > 0),
    decreases lines.len(),
{
    reveal(run_lines);
    if lines.len() > 0 {
        let l = lines[0];
        assert(spec_detect(l) is None);
        let r = spec_inject(a.tags.stored, l, env.le);
        assert(r == (l, Map::<Seq<char>, Seq<char>>::empty()));
        let a2 = Acc { out: a.out + (if a.pending { env.le } else { Seq::<char>::empty() }) + l, pending: true, ..a };
        assert(step_line(a, l, env) == Step::Cont(a2)) by {
            assert(a.tags.stored == Map::<Seq<char>, Seq<char>>::empty());
            assert(TagV { stored: r.1, ..a.tags } == a.tags);
        }
        assert forall|i: int| 0 <= i < lines.skip(1).len() implies spec_detect(#[trigger] lines.skip(1)[i]) is None by {
            assert(lines.skip(1)[i] == lines[i + 1]);
        }
        lemma_plain_run(a2, lines.skip(1), env);
    }
}

/// C16 (first sentence): a source without any directive line is reproduced line for line; only the line endings
/// are normalised and the final newline is set by the option
pub proof fn lemma_c16_no_directive_passthrough(lines: Seq<Seq<char>>, tn: bool, env: EnvV)
    requires
        forall|i: int| 0 <= i < lines.len() ==> spec_detect(#[trigger] lines[i]) is None,
        forall|l: Seq<char>| #[trigger] spec_inject(Map::empty(), l, env.le) == (l, Map::<Seq<char>, Seq<char>>::empty()),
    ensures
        spec_pp(lines, false, tn, env) == Final::Done(join_with(lines, env.le)
            + (if lines.len() > 0 && tn { env.le } else { Seq::<char>::empty() })),   // @ob C16.lemma.no_directive_passthrough
{
    reveal(cont_lines);
    reveal(finish);
    let a = acc0(false);
    lemma_plain_run(a, lines, env);
    lemma_plain_out_is_join(a, lines, env.le);
    let b = run_lines(a, lines, env)->Cont_0;
    assert(!tagv_has_tags(b.tags));
    assert(Seq::<char>::empty() + join_with(lines, env.le) =~= join_with(lines, env.le));
}

/// plain_out from the initial state is `join`
pub proof fn lemma_plain_out_is_join(a: Acc, lines: Seq<Seq<char>>, le: Seq<char>)
    ensures
        plain_out(a, lines, le) == a.out + (if a.pending && lines.len() > 0 { le } else { Seq::<char>::empty() }) + join_with(lines, le),
    decreases lines.len(),
{
    if lines.len() == 0 {
        assert(a.out + Seq::<char>::empty() + Seq::<char>::empty() =~= a.out);
    } else {
        let sep = if a.pending { le } else { Seq::<char>::empty() };
        let a2 = Acc { out: a.out + sep + lines[0], pending: true, ..a };
        lemma_plain_out_is_join(a2, lines.skip(1), le);
        if lines.len() == 1 {
            assert(lines.skip(1).len() == 0);
            assert(a2.out + Seq::<char>::empty() + join_with(lines.skip(1), le) =~= a.out + sep + join_with(lines, le));
        } else {
            assert(a2.out + le + join_with(lines.skip(1), le) =~= a.out + sep + join_with(lines, le));
        }
    }
}

// ---- the final pass never reports dependencies (A8: only a first pass answers with HasDeps)
pub proof fn lemma_directive_keeps_execute(a: Acc, d: DView, has_tail: bool, env: EnvV)
    requires
        a.pp is Execute,
    ensures
        (match run_directive(a, d, has_tail, env) { Step::Fail => true, Step::Cont(b) => b.pp is Execute }),
{
    reveal(exec_spec);
}

pub proof fn lemma_fresh_keeps_execute(a: Acc, l: Seq<char>, env: EnvV)
    requires
        a.pp is Execute,
    ensures
        (match step_fresh(a, l, env) { Step::Fail => true, Step::Cont(b) => b.pp is Execute }),
{
}

pub proof fn lemma_step_keeps_execute(a: Acc, l: Seq<char>, env: EnvV)
    requires
        a.pp is Execute,
    ensures
        (match step_line(a, l, env) { Step::Fail => true, Step::Cont(b) => b.pp is Execute }),
{
    match a.cur {
        None => lemma_fresh_keeps_execute(a, l, env),
        Some(d) => {
            if spec_continue(d, l) is None {
                lemma_directive_keeps_execute(a, d, true, env);
                match run_directive(a, d, true, env) {
                    Step::Fail => {},
                    Step::Cont(a2) => lemma_fresh_keeps_execute(a2, l, env),
                }
            }
        },
    }
}

pub proof fn lemma_lines_keep_execute(a: Acc, lines: Seq<Seq<char>>, env: EnvV)
    requires
        a.pp is Execute,
    ensures
        (match run_lines(a, lines, env) { Step::Fail => true, Step::Cont(b) => b.pp is Execute }),
    decreases lines.len(),
{
    reveal(run_lines);
    if lines.len() > 0 {
        lemma_step_keeps_execute(a, lines[0], env);
        match step_line(a, lines[0], env) {
            Step::Fail => {},
            Step::Cont(a2) => lemma_lines_keep_execute(a2, lines.skip(1), env),
        }
    }
}

pub proof fn lemma_second_pass_no_deps(lines: Seq<Seq<char>>, tn: bool, env: EnvV)
    ensures
        !(spec_pp(lines, false, tn, env) is HasDeps),
{
    reveal(cont_lines);
    reveal(finish);
    lemma_lines_keep_execute(acc0(false), lines, env);
    match run_lines(acc0(false), lines, env) {
        Step::Fail => {},
        Step::Cont(b) => {
            if let Some(d) = b.cur {
                lemma_directive_keeps_execute(b, d, false, env);
            }
        },
    }
}
