// ---- spec/task_match.rs : what the result of preprocessing `f` (first pass or not) looks like; proved for
// `preprocess` in unit U14, used by the worker contract A8 in unit U15
pub open spec fn pp_result_matches(r: Result<PpResult, PpError>, f: AbsPath, first: bool) -> bool {
    match r {
        // the file reported is the file processed; only a first pass can report dependencies
        Ok(PpResult::Ok(g)) => g == f,
        Ok(PpResult::HasDeps(g, _)) => g == f && first,
        Err(_) => true,
    }
}
