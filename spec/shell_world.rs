// ---- spec/shell_world.rs : what a `run` directive observes (shared by U12, which proves Shell::run against it, and
// U13/U14, which use it).  A4 enters through `run_result` (prelude/std_process.rs): the result of executing a
// command is a function of what is executed.

/// C17: what Shell::run executes: the configured shell, its arguments followed by the command as ONE argument, in the
/// directory of the source file given as an absolute path, with TXTPP_FILE set to the source
pub open spec fn shell_cmd_v(exe: Seq<u8>, args: Seq<Seq<u8>>, command: Seq<char>, wd: PathV, file: Seq<char>) -> CmdV {
    CmdV {
        prog: exe,
        args: args.push(vstd::utf8::encode_utf8(command)),
        cwd: Some(wd),
        env: seq![(vstd::utf8::encode_utf8(seq!['T', 'X', 'T', 'P', 'P', '_', 'F', 'I', 'L', 'E']), vstd::utf8::encode_utf8(file))],
    }
}

/// the standard output (lossily decoded) of that command; None: it could not be started or exited with a
/// non-zero status
pub open spec fn w_run_of(exe: Seq<u8>, args: Seq<Seq<u8>>, command: Seq<char>, wd: PathV, file: Seq<char>) -> Option<Seq<char>> {
    match run_result(shell_cmd_v(exe, args, command, wd, file)) {
        Ok(o) => if status_success(&o.status) { Some(lossy(o.stdout@)) } else { None },
        Err(_) => None,
    }
}

/// ... for a configured shell
pub open spec fn w_run(sh: Shell, command: Seq<char>, wd: PathV, file: Seq<char>) -> Option<Seq<char>> {
    w_run_of(sh.exe_v(), sh.args_v(), command, wd, file)
}
