// ---- spec/first_line.rs : the line ending of a source file (C12), shared by U1 (proves it) and U11/U14 (use it)

/// the bytes of the first line including its terminator (what `read_until(b'\n')` delivers); everything if there is
/// no line feed
pub open spec fn first_line_bytes(b: Seq<u8>) -> Seq<u8>
    decreases b.len(),
{
    if b.len() == 0 {
        b
    } else if b[0] == 10u8 {
        seq![10u8]
    } else {
        seq![b[0]] + first_line_bytes(b.skip(1))
    }
}

/// C12: the line ending of a generated file is that of the first line of the source: CRLF iff the first line ends in
/// "\r\n", LF iff it ends in "\n" not preceded by '\r', the OS default (LF on this target) when the source has no line
/// terminator at all.  `first` is the first line including its terminator.
pub open spec fn spec_first_line_ending(first: Seq<u8>) -> Seq<char> {
    let n = first.len();
    if n >= 2 && first[n - 1] == 10u8 && first[n - 2] == 13u8 {
        seq!['\r', '\n']
    } else {
        seq!['\n']
    }
}

/// the line ending of the file at path `p`
pub open spec fn file_le(p: PathV) -> Seq<char> {
    spec_first_line_ending(first_line_bytes(fs_bytes(p)))
}
