// ---- spec/tags_iface.rs : TagState's abstract value for the units that only call it (defined in spec/tags_view.rs, unit U6)
/// TagState is opaque outside unit U6; its abstract value
pub uninterp spec fn tsv(t: &TagState) -> TagV;
