// ---- spec/directive_view.rs : views of the real Directive / DirectiveType types
impl DirectiveType {
    pub open spec fn view(&self) -> DType {
        match self {
            DirectiveType::Empty => DType::Empty,
            DirectiveType::Include => DType::Include,
            DirectiveType::After => DType::After,
            DirectiveType::Run => DType::Run,
            DirectiveType::Tag => DType::Tag,
            DirectiveType::Temp => DType::Temp,
            DirectiveType::Write => DType::Write,
        }
    }
}

/// a directive carries its first argument (Directive::fmt indexes args[0]), and only the multi-line kinds ever get more
/// (Directive::add_line refuses the others): include / after / tag have exactly one
pub open spec fn dargs_ok(d: &Directive) -> bool {
    d.args@.len() >= 1 && (!spec_multi_line(d@.dtype) ==> d.args@.len() == 1)
}

impl Directive {
    pub open spec fn view(&self) -> DView {
        DView {
            ws: self.whitespaces@,
            prefix: self.prefix@,
            dtype: self.directive_type@,
            args: self.args@.map_values(|s: String| s@),
        }
    }
}

