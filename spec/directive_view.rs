// ---- spec/directive_view.rs : views of the real Directive / DirectiveType types
impl DirectiveType {
    pub open spec fn view(&self) -> DType {
        match self {
            DirectiveType::Empty => DType::Empty,
            DirectiveType::Include => DType::Include,
            DirectiveType::After => DType::After,
            DirectiveType::Run => DType::Run,
            DirectiveType::Tag => DType::Tag,
            DirectiveType::Temp => DType::Temp,
            DirectiveType::Write => DType::Write,
        }
    }
}

impl Directive {
    pub open spec fn view(&self) -> DView {
        DView {
            ws: self.whitespaces@,
            prefix: self.prefix@,
            dtype: self.directive_type@,
            args: self.args@.map_values(|s: String| s@),
        }
    }
}

