// ---- spec/paths_lemmas.rs : byte-level facts about the txtpp extension and file-name helpers (proved)

pub proof fn lemma_txtpp_ext_bytes()
    ensures
        TXTPP_EXT.spec_bytes() == TXTPP(),
        "".spec_bytes() == Seq::<u8>::empty(),
        ".".spec_bytes() == seq![46u8],
{
    broadcast use vstd::utf8::group_utf8_lib;
    reveal_strlit("txtpp");
    reveal_strlit("");
    reveal_strlit(".");
    assert(TXTPP_EXT@ =~= seq!['t', 'x', 't', 'p', 'p']);
    vstd::utf8::is_ascii_chars_encode_utf8(seq!['t', 'x', 't', 'p', 'p']);
    assert(vstd::utf8::encode_utf8(seq!['t', 'x', 't', 'p', 'p']) =~= TXTPP());
    assert(""@ =~= Seq::<char>::empty());
    vstd::utf8::is_ascii_chars_encode_utf8(Seq::<char>::empty());
    assert(vstd::utf8::encode_utf8(Seq::<char>::empty()) =~= Seq::<u8>::empty());
    assert("."@ =~= seq!['.']);
    vstd::utf8::is_ascii_chars_encode_utf8(seq!['.']);
    assert(vstd::utf8::encode_utf8(seq!['.']) =~= seq![46u8]);
}

pub proof fn lemma_last_dot(n: Seq<u8>)
    ensures
        last_dot(n) is Some ==> 0 <= last_dot(n)->Some_0 < n.len() && n[last_dot(n)->Some_0] == 46u8,
    decreases n.len(),
{
    if n.len() > 0 && n.last() != 46u8 {
        lemma_last_dot(n.drop_last());
    }
}

pub proof fn lemma_stem_nonempty(n: Seq<u8>)
    requires
        name_ext(n) is Some,
    ensures
        name_stem(n).len() > 0,
        name_stem(n).len() < n.len(),
{
    lemma_last_dot(n);
}

/// a name with an extension is its stem, a dot, and the extension
pub proof fn lemma_name_compose(m: Seq<u8>)
    requires
        name_ext(m) is Some,
    ensures
        name_stem(m) + seq![46u8] + name_ext(m)->Some_0 == m,
{
    lemma_last_dot(m);
    let i = last_dot(m)->Some_0;
    assert(m.take(i) + seq![46u8] + m.skip(i + 1) =~= m);
}
