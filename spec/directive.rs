// ---- spec/directive.rs : the directive grammar of C15, transcribed from the property statement / README
pub open spec fn TXTPP_HASH_SPEC() -> Seq<char> { seq!['T', 'X', 'T', 'P', 'P', '#'] }

pub enum DType { Empty, Include, After, Run, Tag, Temp, Write }

/// the name table: exactly the seven names
pub open spec fn spec_name_table(name: Seq<char>) -> Option<DType> {
    if name == Seq::<char>::empty() { Some(DType::Empty) }
    else if name == seq!['i','n','c','l','u','d','e'] { Some(DType::Include) }
    else if name == seq!['a','f','t','e','r'] { Some(DType::After) }
    else if name == seq!['r','u','n'] { Some(DType::Run) }
    else if name == seq!['t','a','g'] { Some(DType::Tag) }
    else if name == seq!['t','e','m','p'] { Some(DType::Temp) }
    else if name == seq!['w','r','i','t','e'] { Some(DType::Write) }
    else { None }
}

/// run / temp / write / empty accept continuation lines; include / after / tag are single-line
pub open spec fn spec_multi_line(t: DType) -> bool {
    t is Run || t is Temp || t is Write || t is Empty
}

pub struct DView {
    pub ws: Seq<char>,
    pub prefix: Seq<char>,
    pub dtype: DType,
    pub args: Seq<Seq<char>>,
}

/// equality of directive views (extensional on the argument list; implies ==)
pub open spec fn dview_eq(a: DView, b: DView) -> bool {
    a.ws =~= b.ws && a.prefix =~= b.prefix && a.dtype == b.dtype && a.args =~= b.args
}

/// number of leading whitespace characters
pub open spec fn leading_ws_len(line: Seq<char>) -> int {
    match pk_find(PatKind::Pred(not_ws_pred()), line) {
        Some(i) => i,
        None => line.len() as int,
    }
}

/// C15, first sentence. A line starts a directive iff, after its leading whitespace, the first
/// `TXTPP#` on the line is immediately followed by one of the names and then a space or end of line;
/// the text before it is the prefix and the trimmed rest is the first argument.
pub open spec fn spec_detect(line: Seq<char>) -> Option<DView> {
    let w = leading_ws_len(line);
    let rest = line.skip(w);
    match pk_find(PatKind::Str(TXTPP_HASH_SPEC()), rest) {
        None => None,
        Some(h) => {
            let after = rest.skip(h + 6);
            let (name, arg) = match pk_find(PatKind::Pred(char_pred(' ')), after) {
                Some(sp) => (after.take(sp), trim_where(after.skip(sp + 1), ws_pred())),
                None => (after, Seq::<char>::empty()),
            };
            match spec_name_table(name) {
                None => None,
                Some(t) => Some(DView { ws: line.take(w), prefix: rest.take(h), dtype: t, args: seq![arg] }),
            }
        },
    }
}

pub open spec fn spaces(n: nat) -> Seq<char> {
    Seq::new(n, |i: int| ' ')
}

/// C15, second sentence. A following line continues a run/temp/write/empty directive iff it starts
/// with the identical leading whitespace followed by the same prefix, or by as many spaces as the
/// prefix is long (measured in UTF-8 bytes, DESIGN 4.1), or consists of the prefix without its
/// trailing whitespace; its remainder, right-trimmed, becomes the next argument.
pub open spec fn spec_continue(d: DView, line: Seq<char>) -> Option<Seq<char>> {
    if !spec_multi_line(d.dtype) {
        None
    } else if !pk_starts_with(PatKind::Str(d.ws), line) {
        None
    } else {
        let rest = line.skip(d.ws.len() as int);
        if rest == trim_end_where(d.prefix, ws_pred()) {
            Some(Seq::<char>::empty())
        } else if pk_starts_with(PatKind::Str(d.prefix), rest) {
            Some(trim_end_where(rest.skip(d.prefix.len() as int), ws_pred()))
        } else if pk_starts_with(PatKind::Str(spaces(blen(d.prefix))), rest) {
            Some(trim_end_where(rest.skip(blen(d.prefix) as int), ws_pred()))
        } else {
            None
        }
    }
}
