// ---- spec/tags_entries.rs : the list of (byte offset, name, value) entries that inject_tags sorts and walks (unit U6).
// Everything here is proved.

/// char position of an entry's first occurrence
pub open spec fn cpos(line: Seq<char>, e: (usize, &String, &String)) -> int {
    occ(line, e.1@).unwrap()
}

/// an entry is a stored (name, value) pair together with the byte offset of the name's first occurrence in the line
pub open spec fn fo_entry_ok(m: Map<String, String>, line: Seq<char>, e: (usize, &String, &String)) -> bool {
    &&& m.contains_key(*e.1)
    &&& m[*e.1] == *e.2
    &&& occ(line, e.1@) is Some
    &&& e.0 as nat == blen(line.take(occ(line, e.1@).unwrap()))
}

/// every stored name that occurs in the line has an entry
pub open spec fn fo_complete(m: Map<String, String>, line: Seq<char>, v: Seq<(usize, &String, &String)>) -> bool {
    forall|k: String| #[trigger] m.contains_key(k) && occ(line, k@) is Some ==> exists|j: int| 0 <= j < v.len() && *(#[trigger] v[j]).1 == k
}

/// what the hash-map enumeration yields: all entries, each name once, in no particular order
pub open spec fn fo_unsorted(m: Map<String, String>, line: Seq<char>, v: Seq<(usize, &String, &String)>) -> bool {
    &&& forall|j: int| 0 <= j < v.len() ==> fo_entry_ok(m, line, #[trigger] v[j])
    &&& fo_complete(m, line, v)
    &&& forall|a: int, b: int| 0 <= a < b < v.len() ==> *(#[trigger] v[a]).1 != *(#[trigger] v[b]).1
}

/// after sorting: all entries, strictly increasing positions
pub open spec fn entries_ok(m: Map<String, String>, line: Seq<char>, v: Seq<(usize, &String, &String)>) -> bool {
    &&& forall|j: int| 0 <= j < v.len() ==> fo_entry_ok(m, line, #[trigger] v[j])
    &&& fo_complete(m, line, v)
    &&& forall|a: int, b: int| 0 <= a < b < v.len() ==> cpos(line, #[trigger] v[a]) < cpos(line, #[trigger] v[b])
}

/// the scan position when the loop is about to look at entry j
pub open spec fn scan_ptr(line: Seq<char>, v: Seq<(usize, &String, &String)>, j: int) -> int {
    if j <= 0 { 0 } else { cpos(line, v[j - 1]) + 1 }
}

pub open spec fn str_set(s: Seq<String>) -> Set<Seq<char>> {
    s.map_values(|x: String| x@).to_set()
}

pub proof fn lemma_blen_empty()
    ensures
        blen(Seq::<char>::empty()) == 0,
{
    vstd::utf8::is_ascii_chars_encode_utf8(Seq::<char>::empty());
    assert(vstd::utf8::encode_utf8(Seq::<char>::empty()) =~= Seq::<u8>::empty());
}

pub proof fn lemma_occ_bounds(line: Seq<char>, k: Seq<char>)
    requires
        occ(line, k) is Some,
    ensures
        0 <= occ(line, k).unwrap(),
        occ(line, k).unwrap() + k.len() <= line.len(),
        line.subrange(occ(line, k).unwrap(), occ(line, k).unwrap() + k.len()) == k,
{
    lemma_pk_find_from(PatKind::Str(k), line, 0);
}

/// a permutation of the enumeration consists of the same entries
pub proof fn lemma_entries_perm(m: Map<String, String>, line: Seq<char>, v0: Seq<(usize, &String, &String)>, ti: Seq<(usize, &String, &String)>)
    requires
        fo_unsorted(m, line, v0),
        ti.to_multiset() == v0.to_multiset(),
    ensures
        forall|j: int| 0 <= j < ti.len() ==> fo_entry_ok(m, line, #[trigger] ti[j]),
{
    v0.to_multiset_ensures();
    ti.to_multiset_ensures();
    assert forall|j: int| 0 <= j < ti.len() implies fo_entry_ok(m, line, #[trigger] ti[j]) by {
        assert(ti.contains(ti[j]));
        assert(ti.to_multiset().count(ti[j]) > 0);
        assert(v0.to_multiset().count(ti[j]) > 0);
        assert(v0.contains(ti[j]));
        let j0 = choose|j0: int| 0 <= j0 < v0.len() && v0[j0] == ti[j];
        assert(fo_entry_ok(m, line, v0[j0]));
    }
}

/// a permutation of the enumeration that is ordered by byte offset has strictly increasing char positions
pub proof fn lemma_entries_sorted(m: Map<String, String>, line: Seq<char>, v0: Seq<(usize, &String, &String)>, ti: Seq<(usize, &String, &String)>)
    requires
        fo_unsorted(m, line, v0),
        ti.to_multiset() == v0.to_multiset(),
        forall|a: int, b: int| 0 <= a < b < ti.len() ==> (#[trigger] ti[a]).0 <= (#[trigger] ti[b]).0,
        prefix_free(smap_v(m)),
    ensures
        entries_ok(m, line, ti),
{
    v0.to_multiset_ensures();
    ti.to_multiset_ensures();
    assert forall|j: int| 0 <= j < ti.len() implies fo_entry_ok(m, line, #[trigger] ti[j]) by {
        assert(ti.contains(ti[j]));
        assert(ti.to_multiset().count(ti[j]) > 0);
        assert(v0.to_multiset().count(ti[j]) > 0);
        assert(v0.contains(ti[j]));
        let j0 = choose|j0: int| 0 <= j0 < v0.len() && v0[j0] == ti[j];
        assert(fo_entry_ok(m, line, v0[j0]));
    }
    assert forall|k: String| #[trigger] m.contains_key(k) && occ(line, k@) is Some implies exists|j: int| 0 <= j < ti.len() && *(#[trigger] ti[j]).1 == k by {
        let j0 = choose|j0: int| 0 <= j0 < v0.len() && *(#[trigger] v0[j0]).1 == k;
        assert(v0.contains(v0[j0]));
        assert(v0.to_multiset().count(v0[j0]) > 0);
        assert(ti.to_multiset().count(v0[j0]) > 0);
        assert(ti.contains(v0[j0]));
        let j = choose|j: int| 0 <= j < ti.len() && ti[j] == v0[j0];
        assert(*ti[j].1 == k);
    }
    assert(v0.no_duplicates()) by {
        assert forall|a: int, b: int| 0 <= a < v0.len() && 0 <= b < v0.len() && a != b implies v0[a] != v0[b] by {
            if a < b {
                assert(*v0[a].1 != *v0[b].1);
            } else {
                assert(*v0[b].1 != *v0[a].1);
            }
        }
    }
    v0.lemma_multiset_has_no_duplicates();
    ti.lemma_multiset_has_no_duplicates_conv();
    assert forall|a: int, b: int| 0 <= a < b < ti.len() implies cpos(line, #[trigger] ti[a]) < cpos(line, #[trigger] ti[b]) by {
        let ea = ti[a];
        let eb = ti[b];
        assert(fo_entry_ok(m, line, ea) && fo_entry_ok(m, line, eb));
        let pa = cpos(line, ea);
        let pb = cpos(line, eb);
        lemma_occ_bounds(line, ea.1@);
        lemma_occ_bounds(line, eb.1@);
        if *ea.1 == *eb.1 {
            assert(ea == eb);
            assert(false);
        }
        if pa == pb {
            lemma_smap_value(m, *ea.1);
            lemma_smap_value(m, *eb.1);
            lemma_same_pos_prefix_related(line, ea.1@, eb.1@, pa);
            if ea.1@ == eb.1@ {
                axiom_string_ext(*ea.1, *eb.1);
            }
            assert(false);
        }
        if pa > pb {
            lemma_blen_take_mono(line, pb, pa);
            assert(false);
        }
    }
}

pub proof fn lemma_entry_here(m: Map<String, String>, line: Seq<char>, ti: Seq<(usize, &String, &String)>, j: int)
    requires
        entries_ok(m, line, ti),
        0 <= j < ti.len(),
    ensures
        key_here(smap_v(m), line, cpos(line, ti[j]), ti[j].1@),
        0 <= cpos(line, ti[j]),
        cpos(line, ti[j]) + ti[j].1@.len() <= line.len(),
        line.subrange(cpos(line, ti[j]), cpos(line, ti[j]) + ti[j].1@.len()) == ti[j].1@,
        smap_v(m)[ti[j].1@] == ti[j].2@,
{
    assert(fo_entry_ok(m, line, ti[j]));
    lemma_smap_value(m, *ti[j].1);
    lemma_occ_bounds(line, ti[j].1@);
}

/// no stored tag has its first occurrence strictly between two consecutive entries (or before the first / after the last)
pub proof fn lemma_gap(m: Map<String, String>, line: Seq<char>, ti: Seq<(usize, &String, &String)>, j: int, q: int)
    requires
        entries_ok(m, line, ti),
        0 <= j <= ti.len(),
        scan_ptr(line, ti, j) <= q,
        j < ti.len() ==> q < cpos(line, ti[j]),
    ensures
        key_at(smap_v(m), line, q) is None,
{
    let st = smap_v(m);
    if key_at(st, line, q) is Some {
        let k2 = choose|k: Seq<char>| key_here(st, line, q, k);
        lemma_smap_contains(m, k2);
        let s = choose|s: String| m.contains_key(s) && s@ == k2;
        assert(m.contains_key(s) && occ(line, s@) is Some);
        let j2 = choose|j2: int| 0 <= j2 < ti.len() && *(#[trigger] ti[j2]).1 == s;
        assert(cpos(line, ti[j2]) == q);
        if j2 < j {
            if j2 < j - 1 {
                assert(cpos(line, ti[j2]) < cpos(line, ti[j - 1]));
            }
            assert(false);
        } else {
            if j2 > j {
                assert(cpos(line, ti[j]) < cpos(line, ti[j2]));
            }
            assert(false);
        }
    }
}

pub proof fn lemma_str_set_push(s: Seq<String>, x: String)
    ensures
        str_set(s.push(x)) == str_set(s).insert(x@),
{
    let f = |y: String| y@;
    assert(s.push(x).map_values(f) =~= s.map_values(f).push(x@));
    s.map_values(f).lemma_push_to_set_commute(x@);
}

/// the invariant survives when tags are removed
pub proof fn lemma_wf_sub(t0: TagV, t1: TagV)
    requires
        tag_wf(t0),
        t1.listening == t0.listening,
        forall|k: Seq<char>| t1.stored.contains_key(k) ==> t0.stored.contains_key(k),
    ensures
        tag_wf(t1),
{
}

pub proof fn lemma_smap_sub_dom(m0: Map<String, String>, m1: Map<String, String>)
    requires
        forall|s: String| m1.contains_key(s) ==> m0.contains_key(s),
    ensures
        forall|k: Seq<char>| smap_v(m1).contains_key(k) ==> smap_v(m0).contains_key(k),
{
    assert forall|k: Seq<char>| smap_v(m1).contains_key(k) implies smap_v(m0).contains_key(k) by {
        lemma_smap_contains(m1, k);
        lemma_smap_contains(m0, k);
        let s = choose|s: String| m1.contains_key(s) && s@ == k;
        assert(m0.contains_key(s));
    }
}

/// removing a list of names from the String-keyed map removes their texts from the text-keyed view
pub proof fn lemma_smap_remove_keys(m0: Map<String, String>, rm: Seq<String>)
    ensures
        smap_v(m0.remove_keys(rm.to_set())) == smap_v(m0).remove_keys(str_set(rm)),
{
    let a = smap_v(m0.remove_keys(rm.to_set()));
    let b = smap_v(m0).remove_keys(str_set(rm));
    let f = |y: String| y@;
    assert forall|x: Seq<char>| a.contains_key(x) <==> b.contains_key(x) by {
        lemma_smap_contains(m0.remove_keys(rm.to_set()), x);
        lemma_smap_contains(m0, x);
        if a.contains_key(x) {
            let s = choose|s: String| m0.remove_keys(rm.to_set()).contains_key(s) && s@ == x;
            assert(m0.contains_key(s));
            if str_set(rm).contains(x) {
                let i = choose|i: int| 0 <= i < rm.map_values(f).len() && rm.map_values(f)[i] == x;
                axiom_string_ext(rm[i], s);
                assert(rm.to_set().contains(rm[i]));
                assert(false);
            }
        }
        if b.contains_key(x) {
            let s = choose|s: String| m0.contains_key(s) && s@ == x;
            if rm.to_set().contains(s) {
                let i = choose|i: int| 0 <= i < rm.len() && rm[i] == s;
                assert(rm.map_values(f)[i] == x);
                assert(str_set(rm).contains(x));
                assert(false);
            }
            assert(m0.remove_keys(rm.to_set()).contains_key(s));
        }
    }
    assert forall|x: Seq<char>| a.contains_key(x) implies a[x] == b[x] by {
        lemma_smap_contains(m0.remove_keys(rm.to_set()), x);
        let s = choose|s: String| m0.remove_keys(rm.to_set()).contains_key(s) && s@ == x;
        lemma_smap_value(m0.remove_keys(rm.to_set()), s);
        lemma_smap_value(m0, s);
    }
    assert(a =~= b);
}

/// one iteration of the walk over the sorted entries, in terms of the position scan
pub proof fn lemma_inject_step(m: Map<String, String>, line: Seq<char>, le: Seq<char>, ti: Seq<(usize, &String, &String)>, j: int, le_c: int)
    requires
        entries_ok(m, line, ti),
        prefix_free(smap_v(m)),
        0 <= j < ti.len(),
    ensures
        ({
            let st = smap_v(m);
            let p = cpos(line, ti[j]);
            let k = ti[j].1@;
            let here = inject_scan(st, line, le, le_c, scan_ptr(line, ti, j));
            let r2 = inject_scan(st, line, le, p + k.len(), scan_ptr(line, ti, j + 1));
            &&& p < le_c ==> here == inject_scan(st, line, le, le_c, scan_ptr(line, ti, j + 1))
            &&& p >= le_c ==> here == (line.subrange(le_c, p) + spec_replace_le(ti[j].2@, le, false) + r2.0, r2.1.insert(k))
        }),
{
    let st = smap_v(m);
    let p = cpos(line, ti[j]);
    let k = ti[j].1@;
    lemma_entry_here(m, line, ti, j);
    assert forall|q: int| scan_ptr(line, ti, j) <= q < p implies key_at(st, line, q) is None by {
        lemma_gap(m, line, ti, j, q);
    }
    assert(0 <= scan_ptr(line, ti, j) <= p) by {
        if j > 0 {
            assert(cpos(line, ti[j - 1]) < cpos(line, ti[j]));
            lemma_entry_here(m, line, ti, j - 1);
        }
    }
    lemma_scan_skip(st, line, le, le_c, scan_ptr(line, ti, j), p);
    lemma_key_at_unique(st, line, p, k);
    assert(scan_ptr(line, ti, j + 1) == p + 1);
}

/// after the last entry nothing is substituted any more
pub proof fn lemma_inject_end(m: Map<String, String>, line: Seq<char>, le: Seq<char>, ti: Seq<(usize, &String, &String)>, le_c: int)
    requires
        entries_ok(m, line, ti),
    ensures
        inject_scan(smap_v(m), line, le, le_c, scan_ptr(line, ti, ti.len() as int)) == (line.skip(le_c), Set::<Seq<char>>::empty()),
{
    let st = smap_v(m);
    let n = ti.len() as int;
    assert forall|q: int| scan_ptr(line, ti, n) <= q < line.len() + 1 implies key_at(st, line, q) is None by {
        lemma_gap(m, line, ti, n, q);
    }
    assert(0 <= scan_ptr(line, ti, n) <= line.len() + 1) by {
        if n > 0 {
            lemma_entry_here(m, line, ti, n - 1);
        }
    }
    lemma_scan_skip(st, line, le, le_c, scan_ptr(line, ti, n), line.len() as int + 1);
}
