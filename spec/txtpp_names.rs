// ---- spec/txtpp_names.rs : which file names are txtpp sources and what their outputs are called (C11); proved
// against the real TxtppPath functions in unit U9, used by U11/U13/U14

pub open spec fn TXTPP() -> Seq<u8> { seq![116u8, 120u8, 116u8, 112u8, 112u8] }

/// C11: a file name has the txtpp shape iff its extension is `txtpp` (x.txtpp, x.y.txtpp) or the extension of its stem is
/// (x.txtpp.y); so `txtpp`, `.txtpp` and `a.txtpp.b.c` are not
pub open spec fn is_txtpp_name(n: Seq<u8>) -> bool {
    name_ext(n) == Some(TXTPP()) || (name_ext(n) is Some && name_ext(name_stem(n)) == Some(TXTPP()))
}

pub open spec fn is_txtpp_v(p: PathV) -> bool {
    match p_name(p) {
        Some(n) => is_txtpp_name(n),
        None => false,
    }
}

/// C11: the output name of a source: x.ext.txtpp -> x.ext ; x.txtpp.ext -> x.ext ; x.txtpp -> x
pub open spec fn output_name(n: Seq<u8>) -> Seq<u8> {
    if name_ext(n) == Some(TXTPP()) {
        name_stem(n)
    } else {
        // foo.txtpp.ext -> foo.ext: the (possibly dotted) foo is kept, the extension is appended
        name_stem(name_stem(n)) + seq![46u8] + name_ext(n)->Some_0
    }
}

/// C11/C10: the output path of a source path: same directory, output name
pub open spec fn out_path_v(p: PathV) -> PathV {
    p_with_name(p, output_name(p_name(p)->Some_0))
}
