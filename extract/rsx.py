"""Rust source scanner used by the mechanical extractor.

Only lexical structure is understood: comments, string/char literals, lifetimes, identifiers,
punctuation and brace matching.  Functions, impl blocks, structs, enums and consts are located by
name; their text is copied verbatim (offsets into the original file are kept so every generated
line can be mapped back to /repo).
"""
import re


class ExtractError(Exception):
    """Raised when the repo text no longer has the shape a unit expects (lost anchor, missing
    function, changed pinned statement).  The runner turns it into UNDECIDED (exit 2)."""


IDENT_START = set("abcdefghijklmnopqrstuvwxyzABCDEFGHIJKLMNOPQRSTUVWXYZ_")
IDENT_CONT = IDENT_START | set("0123456789")


def tokenize(src):
    """Return list of (kind, start, end).  kinds: ws comment str char lifetime ident num punct"""
    toks = []
    i, n = 0, len(src)
    while i < n:
        c = src[i]
        if c in " \t\r\n":
            j = i + 1
            while j < n and src[j] in " \t\r\n":
                j += 1
            toks.append(("ws", i, j))
            i = j
        elif src.startswith("//", i):
            j = src.find("\n", i)
            if j < 0:
                j = n
            toks.append(("comment", i, j))
            i = j
        elif src.startswith("/*", i):
            depth, j = 1, i + 2
            while j < n and depth > 0:
                if src.startswith("/*", j):
                    depth += 1
                    j += 2
                elif src.startswith("*/", j):
                    depth -= 1
                    j += 2
                else:
                    j += 1
            toks.append(("comment", i, j))
            i = j
        elif c == '"' or (c in "br" and _is_str_start(src, i)):
            j = _scan_string(src, i)
            toks.append(("str", i, j))
            i = j
        elif c == "'":
            # char literal or lifetime
            j = _scan_char_or_lifetime(src, i)
            kind = "char" if src[j - 1] == "'" and j - i >= 3 else "lifetime"
            toks.append((kind, i, j))
            i = j
        elif c in IDENT_START:
            j = i + 1
            while j < n and src[j] in IDENT_CONT:
                j += 1
            toks.append(("ident", i, j))
            i = j
        elif c.isdigit():
            j = i + 1
            while j < n and (src[j] in IDENT_CONT or (src[j] == "." and j + 1 < n and src[j + 1].isdigit())):
                j += 1
            toks.append(("num", i, j))
            i = j
        else:
            toks.append(("punct", i, i + 1))
            i += 1
    return toks


def _is_str_start(src, i):
    m = re.match(r'(b?r#*"|b")', src[i:i + 12])
    return m is not None


def _scan_string(src, i):
    m = re.match(r'b?r(#*)"', src[i:i + 12])
    if m:
        hashes = m.group(1)
        end = src.find('"' + hashes, i + len(m.group(0)))
        if end < 0:
            raise ExtractError("unterminated raw string")
        return end + 1 + len(hashes)
    j = i
    if src[j] == "b":
        j += 1
    assert src[j] == '"'
    j += 1
    while j < len(src):
        if src[j] == "\\":
            j += 2
        elif src[j] == '"':
            return j + 1
        else:
            j += 1
    raise ExtractError("unterminated string")


def _scan_char_or_lifetime(src, i):
    n = len(src)
    # 'x' | '\..' | 'ident (lifetime)
    if i + 1 < n and src[i + 1] == "\\":
        j = i + 2
        while j < n and src[j] != "'":
            j += 1
        return j + 1
    if i + 2 < n and src[i + 2] == "'":
        return i + 3
    # multibyte char literal like 'é' is a single python char, handled above. lifetime:
    j = i + 1
    while j < n and src[j] in IDENT_CONT:
        j += 1
    return j


OPEN = {"(": ")", "[": "]", "{": "}"}
CLOSE = {")", "]", "}"}


class Src:
    def __init__(self, path, text):
        self.path = path
        self.text = text
        self.toks = tokenize(text)
        self.sig = [k for k, t in enumerate(self.toks) if t[0] not in ("ws", "comment")]
        self._match = self._matching()
        self._excluded = self._test_mod_ranges()
        # line starts
        self.line_starts = [0]
        for m in re.finditer("\n", text):
            self.line_starts.append(m.end())

    def line_of(self, off):
        import bisect
        return bisect.bisect_right(self.line_starts, off)

    def tt(self, k):
        t = self.toks[k]
        return self.text[t[1]:t[2]]

    def _matching(self):
        match, stack = {}, []
        for k in self.sig:
            t = self.toks[k]
            if t[0] != "punct":
                continue
            c = self.text[t[1]]
            if c in OPEN:
                stack.append((c, k))
            elif c in CLOSE:
                if not stack:
                    raise ExtractError(f"{self.path}: unbalanced '{c}' at offset {t[1]}")
                o, ko = stack.pop()
                if OPEN[o] != c:
                    raise ExtractError(f"{self.path}: mismatched '{o}' '{c}'")
                match[ko] = k
                match[k] = ko
        return match

    def _test_mod_ranges(self):
        """token-index ranges of `#[cfg(test)] mod x { .. }`"""
        rngs = []
        s = self.sig
        for idx in range(len(s) - 8):
            if [self.tt(s[idx + d]) for d in range(7)] == ["#", "[", "cfg", "(", "test", ")", "]"]:
                j = idx + 7
                if self.tt(s[j]) == "mod":
                    # find the brace
                    while j < len(s) and self.tt(s[j]) not in ("{", ";"):
                        j += 1
                    if j < len(s) and self.tt(s[j]) == "{":
                        rngs.append((s[idx], self._match[s[j]]))
        return rngs

    def excluded(self, k):
        return any(a <= k <= b for a, b in self._excluded)

    # ---- locating things -------------------------------------------------------------------
    def find_block_by_header(self, header, multi=False):
        """Find `<header> {` where header is matched on whitespace-free token text; return the token
        index range (open_brace_k, close_brace_k)."""
        want = re.sub(r"\s+", "", header)
        s = self.sig
        hits = []
        for idx in range(len(s)):
            if self.excluded(s[idx]):
                continue
            acc = ""
            j = idx
            while j < len(s) and len(acc) < len(want):
                acc += self.tt(s[j])
                j += 1
            if acc == want and j < len(s):
                # allow a where clause before the brace: skip to first '{'
                jj = j
                if self.tt(s[jj]) == "where":
                    # skip the where clause up to the block's opening brace
                    while jj < len(s) and self.tt(s[jj]) != "{":
                        if self.tt(s[jj]) in ("(", "["):
                            jj = s.index(self._match[s[jj]])
                        jj += 1
                if jj < len(s) and self.tt(s[jj]) == "{":
                    hits.append((s[jj], self._match[s[jj]]))
        if multi:
            if not hits:
                raise ExtractError(f"{self.path}: block header `{header}` not found")
            return hits
        if len(hits) != 1:
            raise ExtractError(f"{self.path}: block header `{header}` found {len(hits)} times")
        return hits[0]

    def find_fn(self, name, within=None, allow_decl=False):
        ranges = [(0, len(self.toks))]
        if within:
            ranges = self.find_block_by_header(within, multi=True)
        s = [k for k in self.sig if any(lo <= k <= hi for lo, hi in ranges) and not self.excluded(k)]
        hits = []
        for idx in range(len(s) - 1):
            if self.tt(s[idx]) == "fn" and self.toks[s[idx]][0] == "ident" and self.tt(s[idx + 1]) == name:
                hits.append(idx)
        if len(hits) != 1:
            raise ExtractError(f"{self.path}: fn `{name}`" + (f" in `{within}`" if within else "")
                               + f" found {len(hits)} times")
        idx = hits[0]
        # qualifiers before fn
        start_idx = idx
        while start_idx > 0:
            prev = self.tt(s[start_idx - 1])
            if prev in ("pub", "const", "unsafe", "async"):
                start_idx -= 1
            elif prev == ")" and start_idx >= 2:
                # pub(crate)
                ko = self._match[s[start_idx - 1]]
                kk = s.index(ko)
                if kk > 0 and self.tt(s[kk - 1]) == "pub":
                    start_idx = kk - 1
                else:
                    break
            else:
                break
        # header end: first '{' at depth 0 (skipping (), [] groups; <> do not contain braces in this repo)
        j = idx + 2
        while j < len(s):
            t = self.tt(s[j])
            if t in ("(", "["):
                j = s.index(self._match[s[j]]) + 1
                continue
            if t == "{":
                break
            if t == ";":
                if allow_decl:
                    return FnLoc(self, s[start_idx], s[idx], s[idx + 1], s[j], s[j])
                raise ExtractError(f"{self.path}: fn `{name}` has no body")
            j += 1
        body_open = s[j]
        body_close = self._match[body_open]
        return FnLoc(self, s[start_idx], s[idx], s[idx + 1], body_open, body_close)

    def find_macro(self, name):
        s = [k for k in self.sig if not self.excluded(k)]
        hits = [i for i in range(len(s) - 3) if self.tt(s[i]) == "macro_rules" and self.tt(s[i + 1]) == "!"
                and self.tt(s[i + 2]) == name and self.tt(s[i + 3]) == "{"]
        if len(hits) != 1:
            raise ExtractError(f"{self.path}: macro_rules! {name} found {len(hits)} times")
        i = hits[0]
        return s[i], s[i + 3], self._match[s[i + 3]]

    def find_item(self, kw, name):
        """struct/enum/const/trait: returns (start_off, end_off) of the item without attributes."""
        s = [k for k in self.sig if not self.excluded(k)]
        hits = []
        for idx in range(len(s) - 1):
            if self.tt(s[idx]) == kw and self.tt(s[idx + 1]) == name:
                hits.append(idx)
        if len(hits) != 1:
            raise ExtractError(f"{self.path}: {kw} `{name}` found {len(hits)} times")
        idx = hits[0]
        start_idx = idx
        while start_idx > 0 and self.tt(s[start_idx - 1]) in ("pub",):
            start_idx -= 1
        j = idx + 2
        while j < len(s):
            t = self.tt(s[j])
            if t in ("(", "[", "{"):
                close = self._match[s[j]]
                if t == "{" :
                    return self.toks[s[start_idx]][1], self.toks[close][2]
                j = s.index(close) + 1
                continue
            if t == ";":
                return self.toks[s[start_idx]][1], self.toks[s[j]][2]
            j += 1
        raise ExtractError(f"{self.path}: {kw} `{name}`: no end found")


class FnLoc:
    def __init__(self, src, k_start, k_fn, k_name, k_open, k_close):
        self.src = src
        self.k_start, self.k_fn, self.k_name, self.k_open, self.k_close = k_start, k_fn, k_name, k_open, k_close
        self.start = src.toks[k_start][1]
        self.body_open = src.toks[k_open][1]
        self.body_close = src.toks[k_close][2]

    def header_ret_span(self):
        """offsets (a, b) of the return type text after `->` in the header, or None."""
        src = self.src
        s = [k for k in src.sig if self.k_name < k < self.k_open]
        # find param list: first '(' not inside <...>; track angle depth naively
        j, angle = 0, 0
        while j < len(s):
            t = src.tt(s[j])
            if t == "<":
                angle += 1
            elif t == ">" and not (j > 0 and src.tt(s[j - 1]) == "-"):
                angle -= 1
            elif t == "(" and angle == 0:
                break
            elif t == "(":
                j = s.index(src._match[s[j]])
            j += 1
        if j >= len(s):
            raise ExtractError("no parameter list")
        close = src._match[s[j]]
        j = s.index(close) + 1
        if j + 1 < len(s) and src.tt(s[j]) == "-" and src.tt(s[j + 1]) == ">":
            a = src.toks[s[j + 1]][2]
            # until `where` at depth 0 or end of header
            k = j + 2
            end = src.toks[self.k_open][1]
            while k < len(s):
                t = src.tt(s[k])
                if t in ("(", "["):
                    k = s.index(src._match[s[k]]) + 1
                    continue
                if t == "where":
                    end = src.toks[s[k]][1]
                    break
                k += 1
            return a, end
        return None

    def where_or_body_off(self):
        """offset where a spec block must be inserted: before `{` of the body (after any where clause)."""
        return self.body_open

    def loops(self):
        """token indices of loop keywords (loop/while/for) inside the body in source order,
        each with the token index of its body's opening brace."""
        src = self.src
        s = [k for k in src.sig if self.k_open < k < self.k_close]
        out = []
        for idx, k in enumerate(s):
            if src.toks[k][0] == "ident" and src.tt(k) in ("loop", "while", "for"):
                if src.tt(k) == "for" and idx > 0 and src.tt(s[idx - 1]) in ("<",):
                    continue  # for<'a> higher-ranked
                j = idx + 1
                while j < len(s):
                    t = src.tt(s[j])
                    if t in ("(", "["):
                        j = s.index(src._match[s[j]]) + 1
                        continue
                    if t == "{":
                        break
                    j += 1
                out.append((k, s[j]))
        return out

    def closures(self):
        """(k_open_bar, k_close_bar) for closure literals `|...|` inside the body, source order.
        Heuristic: a `|` that follows `(`, `,`, `=`, `move` or `{` starts a closure."""
        src = self.src
        s = [k for k in src.sig if self.k_open < k < self.k_close]
        out = []
        idx = 0
        while idx < len(s):
            k = s[idx]
            if src.tt(k) == "|" and idx > 0 and src.tt(s[idx - 1]) in ("(", ",", "=", "move", "{", ";"):
                j = idx + 1
                if src.tt(s[j]) == "|":
                    out.append((k, s[j]))
                    idx = j + 1
                    continue
                depth = 0
                while j < len(s):
                    t = src.tt(s[j])
                    if t in ("(", "[", "<"):
                        depth += 1
                    elif t in (")", "]", ">"):
                        depth -= 1
                    elif t == "|" and depth == 0:
                        break
                    j += 1
                out.append((k, s[j]))
                idx = j + 1
                continue
            idx += 1
        return out


def norm_ws(s):
    return re.sub(r"\s+", " ", s).strip()
