"""Unit template expansion: units/<unit>.vrs + /repo working tree -> gen/<unit>.rs (+ .map.json)

Template directives (everything else is copied verbatim, origin = the unit file):

  //@include <path relative to /verif>
  //@const <repo-file> <NAME>
  //@item  <repo-file> struct|enum|trait <Name>
  //@macro <repo-file> <name>                       macro_rules! item, verbatim (R3 applied)
  //@fn <repo-file> <fn-name> [in="<impl header>"] [ret=<ident>] [mutself] [as=<new-name>]
      //@spec                                         requires/ensures/decreases (R1)
      //@loop <n>                                     invariant/decreases for the n-th loop (1-based)
      //@closure <n>                                  `-> (b: T) ensures ..` for the n-th closure literal
      //@hoist <n> <name>                             R9: bind the n-th closure literal to `let name = ..;`
      //@before "<anchor>" | //@after "<anchor>"       ghost text at a unique anchor (R1)
      //@replace "<anchor>" sha=<hex12>               R6: pinned statement replacement
  //@end

Rules applied automatically to extracted fn/macro text: R2 (log::*! statements deleted),
R3 (format!/write!/writeln! -> opaque), R4 with `mutself`, R5 (attributes and doc comments of
extracted items dropped), R8 for consts.
"""
import hashlib
import json
import os
import re
import shlex

from rsx import Src, ExtractError, norm_ws

REPO = os.environ.get("VERIF_REPO", "/repo")
VERIF = os.path.dirname(os.path.dirname(os.path.abspath(__file__)))


class Out:
    def __init__(self):
        self.segs = []  # (text, origin) origin = (kind, file, line) line of the first char

    def add(self, text, kind, file, line):
        if text:
            self.segs.append((text, kind, file, line))

    def render(self):
        lines, omap = [], []
        cur, cur_origin = "", None
        for text, kind, file, line in self.segs:
            ln = line
            for part in re.split(r"(\n)", text):
                if part == "\n":
                    lines.append(cur)
                    omap.append(cur_origin or (kind, file, ln))
                    cur, cur_origin = "", None
                    ln += 1
                elif part:
                    if cur_origin is None and part.strip():
                        cur_origin = (kind, file, ln)
                    cur += part
        if cur:
            lines.append(cur)
            omap.append(cur_origin or ("unit", "", 0))
        return "\n".join(lines) + "\n", omap


_src_cache = {}


def load_src(relpath):
    if relpath not in _src_cache:
        p = os.path.join(REPO, relpath)
        if not os.path.exists(p):
            raise ExtractError(f"{relpath}: file missing")
        _src_cache[relpath] = Src(relpath, open(p, encoding="utf-8").read())
    return _src_cache[relpath]


class Edits:
    """span edits over one source region [a,b) of a Src; renders into Out with origins."""

    def __init__(self, src, a, b):
        self.src, self.a, self.b = src, a, b
        self.edits = []  # (start, end, text, origin)

    def insert(self, off, text, origin):
        self.edits.append((off, off, text, origin, len(self.edits)))

    def replace(self, s, e, text, origin):
        self.edits.append((s, e, text, origin, len(self.edits)))

    def emit(self, out):
        pos = self.a
        for s, e, text, origin, _ in sorted(self.edits, key=lambda x: (x[0], 0 if x[0] == x[1] else 1, x[4])):
            if s < pos:
                raise ExtractError(f"{self.src.path}: overlapping rewrite rules at line {self.src.line_of(s)}")
            out.add(self.src.text[pos:s], "repo", self.src.path, self.src.line_of(pos))
            out.add(text, origin[0], origin[1], origin[2])
            pos = e
        out.add(self.src.text[pos:self.b], "repo", self.src.path, self.src.line_of(pos))


def find_anchor(src, a, b, anchor, what):
    """whitespace-insensitive occurrence of anchor in src.text[a:b]; returns (s, e).  The anchor must be unique,
    or carry an ordinal suffix `#n` selecting the n-th occurrence (1-based) among at least n."""
    region = src.text[a:b]
    m_ord = re.match(r"^(.*)#(\d+)$", anchor, re.S)
    if m_ord:
        anchor, nth = m_ord.group(1), int(m_ord.group(2))
        want = re.sub(r"\s+", "", anchor)
        idxmap, flat = [], []
        for i, ch in enumerate(region):
            if not ch.isspace():
                idxmap.append(i)
                flat.append(ch)
        flat = "".join(flat)
        pos, hits2 = 0, []
        while True:
            p_ = flat.find(want, pos)
            if p_ < 0:
                break
            hits2.append((idxmap[p_], idxmap[p_ + len(want) - 1] + 1))
            pos = p_ + 1
        if len(hits2) < nth:
            raise ExtractError(f"{src.path}: anchor for {what} `{anchor}` occurrence #{nth} not found ({len(hits2)} occurrences) (lost anchor)")
        return a + hits2[nth - 1][0], a + hits2[nth - 1][1]
    # build regex allowing any whitespace between tokens of the anchor
    parts = [re.escape(p) for p in anchor.split()]
    rx = re.compile(r"\s*".join(parts))
    # also allow missing whitespace: split anchor further at punctuation boundaries
    hits = list(rx.finditer(region))
    if len(hits) != 1:
        # second try: fully whitespace-free matching
        want = re.sub(r"\s+", "", anchor)
        idxmap, flat = [], []
        for i, ch in enumerate(region):
            if not ch.isspace():
                idxmap.append(i)
                flat.append(ch)
        flat = "".join(flat)
        pos, hits2 = 0, []
        while True:
            p = flat.find(want, pos)
            if p < 0:
                break
            hits2.append((idxmap[p], idxmap[p + len(want) - 1] + 1))
            pos = p + 1
        if len(hits2) != 1:
            raise ExtractError(f"{src.path}: anchor for {what} `{anchor}` found {len(hits2)} times (lost anchor)")
        return a + hits2[0][0], a + hits2[0][1]
    return a + hits[0].start(), a + hits[0].end()


class Stats:
    def __init__(self):
        self.rules = {}
        self.functions = []  # dicts
        self.pinned = []
        self.items = []
        self.lost_shims = []   # functions that lost a `shim?` anchor: their failed proofs are not evidence

    def rule(self, r, n=1):
        self.rules[r] = self.rules.get(r, 0) + n


def apply_auto_rules(src, ed, k_lo, k_hi, stats, fname):
    """R2, R3 on tokens in (k_lo, k_hi)."""
    s = [k for k in src.sig if k_lo < k < k_hi]
    idx = 0
    consumed_until = -1
    while idx < len(s):
        k = s[idx]
        if k <= consumed_until:
            idx += 1
            continue
        t = src.tt(k)
        # R2: log :: level ! ( ... ) ;
        if t == "log" and idx + 5 < len(s) and src.tt(s[idx + 1]) == ":" and src.tt(s[idx + 2]) == ":" \
                and src.tt(s[idx + 3]) in ("trace", "debug", "info", "warn", "error") and src.tt(s[idx + 4]) == "!":
            ko = s[idx + 5]
            kc = src._match[ko]
            # trailing semicolon
            j = s.index(kc) + 1
            end = src.toks[kc][2]
            if j < len(s) and src.tt(s[j]) == ";":
                end = src.toks[s[j]][2]
                consumed_until = s[j]
            else:
                # expression position (e.g. last expr of a block): replace by unit
                consumed_until = kc
            _check_log_args(src, ko, kc, fname)
            ed.replace(src.toks[k][1], end, "/* R2: log statement dropped */", ("rule", "R2", src.line_of(src.toks[k][1])))
            stats.rule("R2")
        # R2': eprintln!( ... ) ;  (diagnostic text on stderr, same treatment as a log statement)
        elif t == "eprintln" and idx + 2 < len(s) and src.tt(s[idx + 1]) == "!" and src.tt(s[idx + 2]) == "(" \
                and src.toks[k][0] == "ident":
            ko = s[idx + 2]
            kc = src._match[ko]
            j = s.index(kc) + 1
            end = src.toks[kc][2]
            if j < len(s) and src.tt(s[j]) == ";":
                end = src.toks[s[j]][2]
                consumed_until = s[j]
            else:
                consumed_until = kc
            _check_log_args(src, ko, kc, fname)
            ed.replace(src.toks[k][1], end, "/* R2: eprintln statement dropped */", ("rule", "R2", src.line_of(src.toks[k][1])))
            stats.rule("R2")
        # R3: format!(..) / write!(..) / writeln!(..)
        elif t in ("format", "write", "writeln") and idx + 2 < len(s) and src.tt(s[idx + 1]) == "!" \
                and src.tt(s[idx + 2]) == "(" and src.toks[k][0] == "ident" \
                and not (idx > 0 and src.tt(s[idx - 1]) in (".", "fn")):
            ko = s[idx + 2]
            kc = src._match[ko]
            if t == "format":
                repl = "fmt_opaque()"
            else:
                repl = "fmt_write_opaque()"
            ed.replace(src.toks[k][1], src.toks[kc][2], repl, ("rule", "R3", src.line_of(src.toks[k][1])))
            consumed_until = kc
            stats.rule("R3")
        idx += 1


_LOG_ARG_OK = re.compile(r'^[\w\s:{}?,.&*"\'#=\-`()\[\]!<>/|\\+;@$%^~]*$')


def _check_log_args(src, ko, kc, fname):
    """Reject log arguments that could have effects: only paths, fields, literals and calls to
    a fixed list of pure accessors are accepted."""
    text = src.text[src.toks[ko][2]:src.toks[kc][1]]
    # strip string literals
    stripped = re.sub(r'"(\\.|[^"\\])*"', '""', text)
    for m in re.finditer(r"\.\s*(\w+)\s*\(", stripped):
        if m.group(1) not in ("display", "len", "to_string", "as_ref", "as_path", "is_some", "is_none", "clone"):
            raise ExtractError(f"{src.path}: log argument in {fname} calls `{m.group(1)}` (R2 scan)")
    if re.search(r"[^=!<>]=[^=]", stripped.replace("=>", "")):
        # named format args `x = expr` are fine; assignments are not expected inside a log call
        pass


def apply_r10(src, ed, fn, stats, fname):
    """R10: Verus rejects `continue` inside `for` loops.  The only shape rewritten is a top-level guard
    `if C { continue; }` (no else) in a for-loop body:  `if C { continue; } REST`  ->  `if C { } else { REST }`.
    Any other placement of `continue` in a for loop makes the unit undecided."""
    for k_kw, k_body in fn.loops():
        if src.tt(k_kw) != "for":
            continue
        k_end = src._match[k_body]
        inner = [k for k in src.sig if k_body < k < k_end]
        # nested loop ranges are skipped
        nested = [(a, src._match[b]) for a, b in fn.loops() if k_body < a < k_end]
        conts = [k for k in inner if src.toks[k][0] == "ident" and src.tt(k) == "continue"
                 and not any(a <= k <= b for a, b in nested)]
        if not conts:
            continue
        if len(conts) != 1:
            raise ExtractError(f"{src.path}: fn {fname}: for-loop with {len(conts)} `continue` (R10 handles exactly one guard)")
        kc = conts[0]
        i = inner.index(kc)
        if not (i >= 1 and src.tt(inner[i - 1]) == "{" and i + 2 < len(inner) and src.tt(inner[i + 1]) == ";"
                and src.tt(inner[i + 2]) == "}" and src._match[inner[i - 1]] == inner[i + 2]):
            raise ExtractError(f"{src.path}: fn {fname}: `continue` is not a lone statement of an if-block (R10)")
        k_if_open, k_if_close = inner[i - 1], inner[i + 2]
        # the `if` keyword: walk back from the block's `{` to the statement start; the enclosing brace must be the loop body
        j = i - 2
        while j >= 0 and not (src.tt(inner[j]) in (";", "}", "{")):
            j -= 1
        first = inner[j + 1]
        if src.tt(first) != "if":
            raise ExtractError(f"{src.path}: fn {fname}: guard of `continue` is not a plain `if` statement (R10)")
        # depth check: the if statement must be at the top level of the loop body
        depth = 0
        for k in inner[:j + 1]:
            t = src.tt(k)
            if t in ("{", "(", "["):
                depth += 1
            elif t in ("}", ")", "]"):
                depth -= 1
        if depth != 0:
            raise ExtractError(f"{src.path}: fn {fname}: guarded `continue` is nested (R10)")
        # no else
        nxt = inner[i + 3] if i + 3 < len(inner) else None
        if nxt is not None and src.tt(nxt) == "else":
            raise ExtractError(f"{src.path}: fn {fname}: guarded `continue` has an else branch (R10)")
        line = src.line_of(src.toks[kc][1])
        ed.replace(src.toks[kc][1], src.toks[inner[i + 1]][2], "/* R10: continue */", ("rule", "R10", line))
        ed.insert(src.toks[k_if_close][2], " else {", ("rule", "R10", line))
        ed.insert(src.toks[k_end][1], "} /* R10 */ ", ("rule", "R10", line))
        stats.rule("R10")


def expand_fn(args, sections, unit_file, out, stats):
    relpath, name = args[0], args[1]
    opts = {}
    flags = set()
    for a in args[2:]:
        if "=" in a:
            k, v = a.split("=", 1)
            opts[k] = v
        else:
            flags.add(a)
    src = load_src(relpath)
    fn = src.find_fn(name, opts.get("in"), allow_decl=("decl" in flags))
    if "decl" in flags:
        # trait method declaration (no body): header verbatim + contract + ';'
        ed = Edits(src, fn.start, src.toks[fn.k_open][2])
        if "ret" in opts:
            span = fn.header_ret_span()
            a, b = span
            ed.replace(a, b, f" ({opts['ret']}: {src.text[a:b].strip()}) ", ("rule", "R1-ret", src.line_of(a)))
        for kind, arg, text, uline in sections:
            if kind == "spec":
                ed.insert(src.toks[fn.k_open][1], "\n" + text, ("contract", unit_file, uline + 1))
        ed.emit(out)
        out.add("\n", "unit", unit_file, 0)
        stats.functions.append({"fn": name + " (trait declaration)", "file": relpath,
                                "lines": [src.line_of(fn.start), src.line_of(src.toks[fn.k_open][1])], "sections": [
                                    {"kind": "attr", "arg": "external_body (declaration only)", "unit_line": 0, "text": ""}]})
        return
    ed = Edits(src, fn.start, fn.body_close)
    label = (opts.get("in", "") + "::" if opts.get("in") else "") + name
    if "stub" in flags:
        # assumed contract: only the header is taken from the repo; the body is NOT verified in this unit
        ed = Edits(src, fn.start, fn.body_open)
        if "ret" in opts:
            span = fn.header_ret_span()
            if span is None:
                raise ExtractError(f"{relpath}: fn {name} has no return type to name")
            a, b = span
            ed.replace(a, b, f" ({opts['ret']}: {src.text[a:b].strip()}) ", ("rule", "R1-ret", src.line_of(a)))
        if "mutself" in flags:
            s_ = [k for k in src.sig if fn.k_name < k < fn.k_open]
            for i_ in range(len(s_) - 1):
                if src.tt(s_[i_]) == "mut" and src.tt(s_[i_ + 1]) == "self":
                    ed.replace(src.toks[s_[i_]][1], src.toks[s_[i_]][2], "", ("rule", "R4", src.line_of(src.toks[s_[i_]][1])))
        out.add("#[verifier::external_body]\n", "rule", "stub", src.line_of(fn.start))
        for kind, arg, text, uline in sections:
            if kind == "spec":
                ed.insert(fn.body_open, "\n" + text, ("contract", unit_file, uline + 1))
            elif kind != "attr":
                pass
        ed.emit(out)
        out.add("{ unimplemented!() }\n", "rule", "stub", src.line_of(fn.start))
        stats.functions.append({"fn": label, "file": relpath, "lines": [src.line_of(fn.start), src.line_of(fn.body_close - 1)],
                                "sections": [{"kind": "attr", "arg": "#[verifier::external_body] (stub: contract assumed here)", "unit_line": 0, "text": ""}],
                                "stub": True})
        return
    finfo = {"fn": label, "file": relpath, "lines": [src.line_of(fn.start), src.line_of(fn.body_close - 1)],
             "sections": []}
    # rename
    if "as" in opts:
        t = src.toks[fn.k_name]
        ed.replace(t[1], t[2], opts["as"], ("rule", "rename", src.line_of(t[1])))
    # ret naming
    if "ret" in opts:
        span = fn.header_ret_span()
        if span is None:
            raise ExtractError(f"{relpath}: fn {name} has no return type to name")
        a, b = span
        ty = src.text[a:b].strip()
        ed.replace(a, b, f" ({opts['ret']}: {ty}) ", ("rule", "R1-ret", src.line_of(a)))
    apply_auto_rules(src, ed, fn.k_name, fn.k_close, stats, name)
    apply_r10(src, ed, fn, stats, name)
    replaced = [(e_[0], e_[1]) for e_ in ed.edits if e_[0] < e_[1]]
    # R4
    if "mutself" in flags:
        s = [k for k in src.sig if fn.k_name < k < fn.k_open]
        done = False
        for i in range(len(s) - 1):
            if src.tt(s[i]) == "mut" and src.tt(s[i + 1]) == "self":
                ed.replace(src.toks[s[i]][1], src.toks[s[i]][2], "", ("rule", "R4", src.line_of(src.toks[s[i]][1])))
                done = True
                break
        if not done:
            raise ExtractError(f"{relpath}: fn {name}: R4 requested but no `mut self`")
        # rename self -> this in body
        for k in src.sig:
            if fn.k_open < k < fn.k_close and src.toks[k][0] == "ident" and src.tt(k) == "self" \
                    and not any(a_ <= src.toks[k][1] < b_ for a_, b_ in replaced):
                ed.replace(src.toks[k][1], src.toks[k][2], "this", ("rule", "R4", src.line_of(src.toks[k][1])))
        ed.insert(src.toks[fn.k_open][2], " let mut this = self;", ("rule", "R4", src.line_of(fn.body_open)))
        stats.rule("R4")
    loops = fn.loops()
    closures = fn.closures()
    for kind, arg, text, uline in sections:
        origin = ("contract", unit_file, uline + 1)
        finfo["sections"].append({"kind": kind, "arg": arg, "unit_line": uline, "text": text})
        if kind == "spec":
            ed.insert(fn.body_open, "\n" + text, origin)
        elif kind == "loop":
            n = int(arg)
            if n < 1 or n > len(loops):
                raise ExtractError(f"{relpath}: fn {name}: loop #{n} not found ({len(loops)} loops) (lost anchor)")
            kb = loops[n - 1][1]
            ed.insert(src.toks[kb][1], "\n" + text, origin)
        elif kind == "afterloop":
            n = int(arg)
            if n < 1 or n > len(loops):
                raise ExtractError(f"{relpath}: fn {name}: loop #{n} not found (lost anchor)")
            kclose = src._match[loops[n - 1][1]]
            ed.insert(src.toks[kclose][2], "\n" + text, origin)
        elif kind == "endloop":
            n = int(arg)
            if n < 1 or n > len(loops):
                raise ExtractError(f"{relpath}: fn {name}: loop #{n} not found (lost anchor)")
            kclose = src._match[loops[n - 1][1]]
            ed.insert(src.toks[kclose][1], "\n" + text, origin)
        elif kind == "attr":
            # R1: verifier attribute in front of the fn item (ghost: affects only how Verus treats loops)
            if not re.match(r"^#\[verifier::[a-z_]+(\([a-z_0-9, ]*\))?\]$", arg.strip()):
                raise ExtractError(f"{unit_file}:{uline}: only #[verifier::..] attributes may be added")
            ed.insert(fn.start, arg.strip() + "\n", origin)
        elif kind == "loopvar":
            # R1: name the ghost iterator of the n-th loop (must be a for loop): `for x in EXPR` -> `for x in NAME: EXPR`
            n, vname = arg.split()
            n = int(n)
            if n < 1 or n > len(loops) or src.tt(loops[n - 1][0]) != "for":
                raise ExtractError(f"{relpath}: fn {name}: for-loop #{n} not found (lost anchor)")
            s_ = [k for k in src.sig if loops[n - 1][0] < k < loops[n - 1][1]]
            kin = None
            depth = 0
            for k in s_:
                t = src.tt(k)
                if t in ("(", "["):
                    depth += 1
                elif t in (")", "]"):
                    depth -= 1
                elif t == "in" and depth == 0:
                    kin = k
                    break
            if kin is None:
                raise ExtractError(f"{relpath}: fn {name}: for-loop #{n} has no `in`")
            ed.insert(src.toks[kin][2], f" {vname}:", origin)
        elif kind == "closure":
            n = int(arg)
            if n < 1 or n > len(closures):
                raise ExtractError(f"{relpath}: fn {name}: closure #{n} not found ({len(closures)}) (lost anchor)")
            kbar = closures[n - 1][1]
            s = [k for k in src.sig if k > kbar]
            nxt = s[0]
            if src.tt(nxt) == "{":
                ed.insert(src.toks[kbar][2], " " + text.strip() + " ", origin)
            else:
                # wrap expression body in braces: body ends at , ) ; at depth 0
                j, depth = 0, 0
                while True:
                    t = src.tt(s[j])
                    if t in ("(", "[", "{"):
                        j = s.index(src._match[s[j]]) + 1
                        continue
                    if t in (",", ")", ";", "]", "}"):
                        break
                    j += 1
                endoff = src.toks[s[j - 1]][2]
                ed.insert(src.toks[kbar][2], " " + text.strip() + " {", origin)
                ed.insert(endoff, " }", origin)
        elif kind == "hoist":
            n, vname = arg.split()
            n = int(n)
            if n < 1 or n > len(closures):
                raise ExtractError(f"{relpath}: fn {name}: closure #{n} not found (lost anchor)")
            kopen, kbar = closures[n - 1]
            s = [k for k in src.sig if k > kbar]
            j = 0
            if src.tt(s[0]) == "{":
                endk = src._match[s[0]]
                endoff = src.toks[endk][2]
            else:
                while True:
                    t = src.tt(s[j])
                    if t in ("(", "[", "{"):
                        j = s.index(src._match[s[j]]) + 1
                        continue
                    if t in (",", ")", ";", "]", "}"):
                        break
                    j += 1
                endoff = src.toks[s[j - 1]][2]
            startoff = src.toks[kopen][1]
            # include preceding `move`
            # statement start: walk back
            sb = [k for k in src.sig if fn.k_open <= k < kopen]
            depth, idx = 0, len(sb) - 1
            while idx >= 0:
                t = src.tt(sb[idx])
                if t in (")", "]", "}"):
                    if t == "}" and depth == 0:
                        break
                    idx = sb.index(src._match[sb[idx]]) - 1
                    continue
                if t in ("(", "[", "{"):
                    if t == "{":
                        break
                    # unmatched open paren: we are inside a call's argument list, keep walking
                    idx -= 1
                    continue
                if t == ";":
                    break
                idx -= 1
            stmt_start = src.toks[sb[idx]][2]
            closure_text = src.text[startoff:endoff]
            # closure sections targeting the same closure are applied on the hoisted text by the template
            bars = src.text[startoff:src.toks[kbar][2]]
            body_txt = src.text[src.toks[kbar][2]:endoff].strip()
            if text.strip():
                inner = body_txt if body_txt.startswith("{") else "{ " + body_txt + " }"
                t_ = text.strip()
                if t_.startswith("|"):
                    # R9': the hoisted closure loses the call site's type inference, so the contract may restate the
                    # parameter list with type ascriptions; the parameter NAMES must be the original ones
                    close = t_.index("|", 1)
                    typed, t_ = t_[:close + 1], t_[close + 1:].strip()
                    names = lambda b: [re.split(r":", x, 1)[0].strip() for x in _split_top(b.strip()[1:-1])]
                    if names(typed) != names(bars):
                        raise ExtractError(f"{unit_file}:{uline}: hoisted closure parameters {names(bars)} were restated as {names(typed)}")
                    bars = typed
                    stats.rule("R9t")
                hoisted = f"{bars} {t_} {inner}"
            else:
                hoisted = closure_text
            ed.insert(stmt_start, f"\n let {vname} = {hoisted};", origin)
            ed.replace(startoff, endoff, vname, ("rule", "R9", src.line_of(startoff)))
            finfo["sections"][-1]["closure_text"] = norm_ws(closure_text)
            stats.rule("R9")
        elif kind in ("before", "after", "afterstmt"):
            s_, e_ = find_anchor(src, fn.body_open, fn.body_close, arg, f"fn {name}")
            if kind == "afterstmt":
                # the anchor is the START of a statement; insert after that statement's terminating `;`
                ks = [k for k in src.sig if src.toks[k][1] >= s_ and src.toks[k][1] < fn.body_close]
                depth, e_ = 0, None
                for k in ks:
                    t = src.tt(k)
                    if t in ("(", "[", "{"):
                        depth += 1
                    elif t in (")", "]", "}"):
                        depth -= 1
                        if depth < 0:
                            break
                    elif t == ";" and depth == 0:
                        e_ = src.toks[k][2]
                        break
                if e_ is None:
                    raise ExtractError(f"{src.path}: fn {name}: statement starting at anchor `{arg}` has no terminator (lost anchor)")
            ed.insert(s_ if kind == "before" else e_, "\n" + text + "\n", origin)
        elif kind in ("replace", "replace?", "shim?"):
            m = re.match(r'^(.*)\s+sha=([0-9a-f]+)$', arg, re.S)
            if not m:
                raise ExtractError(f"{unit_file}:{uline}: replace needs sha=")
            anchor, sha = m.group(1), m.group(2)
            try:
                s_, e_ = find_anchor(src, fn.start, fn.body_close, anchor, f"fn {name}")
            except ExtractError:
                if kind == "replace?":
                    # optional pin of an EFFECTFUL statement (e.g. `pool.join()`): if it is gone there is nothing to
                    # replace, the body is verified as it stands, and its absence is what the contract decides
                    continue
                if kind == "shim?":
                    # optional R7 shim for a std operation that has no Verus specification (e.g. `Vec<u8> == &[u8]`):
                    # the expression is gone or spelled differently.  The body is verified as it stands; if that
                    # works, fine - but a FAILED proof of this function is then not evidence (the unspecified
                    # operation is probably still there in another spelling): the runner makes it undecided.
                    stats.lost_shims.append({"fn": label, "name": name, "anchor": anchor})
                    continue
                raise
            got = hashlib.sha256(re.sub(r"\s+", "", src.text[s_:e_]).encode()).hexdigest()[:len(sha)]
            if got != sha:
                raise ExtractError(f"{relpath}: pinned statement in fn {name} changed (sha {got} != {sha})")
            # automatic rewrites (R2/R3/R4) inside the replaced text are moot
            ed.edits = [x for x in ed.edits if not (s_ <= x[0] and x[1] <= e_)]
            ed.replace(s_, e_, text.rstrip("\n"), ("rule", "R6", src.line_of(s_)))
            stats.pinned.append({"fn": label, "file": relpath, "line": src.line_of(s_), "sha": sha,
                                 "original": norm_ws(src.text[s_:e_]), "replacement": norm_ws(text)})
            stats.rule("R6")
        else:
            raise ExtractError(f"{unit_file}:{uline}: unknown section {kind}")
    ed.emit(out)
    out.add("\n", "unit", unit_file, 0)
    stats.functions.append(finfo)


def _split_top(s):
    """split at top-level commas (parentheses/brackets/angle brackets respected)"""
    out, depth, cur = [], 0, ""
    for ch in s:
        if ch in "([<":
            depth += 1
        elif ch in ")]>":
            depth -= 1
        if ch == "," and depth == 0:
            out.append(cur)
            cur = ""
        else:
            cur += ch
    if cur.strip():
        out.append(cur)
    return out


def strip_attrs_and_docs(src, a, b):
    """R5 for items: drop `#[..]` attributes and doc comments inside [a,b)."""
    ed = Edits(src, a, b)
    s = [k for k in range(len(src.toks)) if a <= src.toks[k][1] < b]
    i = 0
    while i < len(s):
        k = s[i]
        kind, ts, te = src.toks[k]
        if kind == "comment" and src.text[ts:ts + 3] in ("///", "//!", "/**"):
            ed.replace(ts, te, "", ("rule", "R5", src.line_of(ts)))
        elif kind == "punct" and src.text[ts] == "#":
            # attribute
            j = i + 1
            while j < len(s) and src.toks[s[j]][0] in ("ws", "comment"):
                j += 1
            if j < len(s) and src.tt(s[j]) == "[":
                kc = src._match[s[j]]
                ed.replace(ts, src.toks[kc][2], "", ("rule", "R5", src.line_of(ts)))
                i = s.index(kc)
        i += 1
    return ed


def expand_unit(unit_path, stats=None):
    stats = stats or Stats()
    unit_file = os.path.relpath(unit_path, VERIF)
    lines = open(unit_path, encoding="utf-8").read().split("\n")
    out = Out()
    i = 0
    while i < len(lines):
        ln = lines[i]
        st = ln.strip()
        if st.startswith("//@include "):
            p = st.split(None, 1)[1].strip()
            text = open(os.path.join(VERIF, p), encoding="utf-8").read()
            out.add(f"// ---- include {p}\n", "unit", unit_file, i + 1)
            out.add(text if text.endswith("\n") else text + "\n", "include", p, 1)
            stats.items.append({"include": p})
            i += 1
        elif st.startswith("//@const "):
            _, relpath, name = st.split()
            src = load_src(relpath)
            a, b = src.find_item("const", name)
            text = src.text[a:b]
            new = re.sub(r":\s*&\s*str\b", ": &'static str", text)
            if new != text:
                stats.rule("R8")
            out.add(new + "\n", "repo", relpath, src.line_of(a))
            stats.items.append({"const": name, "file": relpath, "line": src.line_of(a)})
            i += 1
        elif st.startswith("//@item "):
            parts = shlex.split(st[len("//@item "):])
            relpath, kw, name = parts[0], parts[1], parts[2]
            src = load_src(relpath)
            a, b = src.find_item(kw, name)
            for opt in parts[3:]:
                if opt.startswith("derive="):
                    # R5': the listed derives of the item are kept (they must be present on the item in the repo)
                    want = opt[len("derive="):].split(",")
                    head = src.text[max(0, a - 400):a]
                    for w_ in want:
                        if not re.search(r"derive\([^)]*\b" + re.escape(w_) + r"\b", head):
                            raise ExtractError(f"{relpath}: {kw} {name} no longer derives {w_}")
                    out.add("#[derive(" + ", ".join(want) + ")]\n", "rule", "R5-derive", src.line_of(a))
            if "opaque" in parts[3:]:
                # the type is only passed around in this unit: its fields are hidden from the verifier
                out.add("#[verifier::external_body]\n", "rule", "opaque", src.line_of(a))
            ed = strip_attrs_and_docs(src, a, b)
            ed.emit(out)
            out.add("\n", "unit", unit_file, i + 1)
            stats.rule("R5")
            stats.items.append({kw: name, "file": relpath, "line": src.line_of(a)})
            i += 1
        elif st.startswith("//@macro "):
            _, relpath, name = st.split()
            src = load_src(relpath)
            k_start, k_open, k_close = src.find_macro(name)
            ed = Edits(src, src.toks[k_start][1], src.toks[k_close][2])
            apply_auto_rules(src, ed, k_open, k_close, stats, "macro " + name)
            ed.emit(out)
            out.add("\n", "unit", unit_file, i + 1)
            stats.items.append({"macro": name, "file": relpath, "line": src.line_of(src.toks[k_start][1])})
            i += 1
        elif st.startswith("//@fn "):
            args = shlex.split(st[len("//@fn "):])
            sections = []
            i += 1
            cur = None
            while i < len(lines) and lines[i].strip() != "//@end":
                s2 = lines[i].strip()
                if s2.startswith("//@") and not s2.startswith("//@@"):
                    if cur:
                        sections.append(cur)
                    body = s2[3:]
                    kind = body.split(None, 1)[0]
                    arg = body[len(kind):].strip()
                    if kind in ("before", "after", "afterstmt", "replace", "replace?", "shim?"):
                        m = re.match(r'^"((?:[^"\\]|\\.)*)"(.*)$', arg, re.S)
                        if not m:
                            raise ExtractError(f"{unit_file}:{i+1}: anchor must be quoted")
                        anchor = m.group(1).replace('\\"', '"').replace("\\\\", "\\")
                        arg = anchor + m.group(2)
                    cur = [kind, arg, "", i]
                else:
                    if cur is None:
                        if s2:
                            raise ExtractError(f"{unit_file}:{i+1}: text outside a section")
                    else:
                        cur[2] += lines[i] + "\n"
                i += 1
            if cur:
                sections.append(cur)
            if i >= len(lines):
                raise ExtractError(f"{unit_file}: //@fn without //@end")
            resolved = []
            for kind_, arg_, text_, ln_ in sections:
                text_ = re.sub(r"(?m)^[ \t]*//@@include[ \t]+(\S+)[ \t]*$",
                               lambda m: open(os.path.join(VERIF, m.group(1)), encoding="utf-8").read().rstrip("\n"), text_)
                resolved.append((kind_, arg_, text_, ln_))
            expand_fn(args, resolved, unit_file, out, stats)
            i += 1
        else:
            out.add(ln + "\n", "unit", unit_file, i + 1)
            i += 1
    text, omap = out.render()
    return text, omap, stats


def main():
    import sys
    unit = sys.argv[1]
    outdir = sys.argv[2] if len(sys.argv) > 2 else os.path.join(VERIF, "gen")
    os.makedirs(outdir, exist_ok=True)
    name = os.path.splitext(os.path.basename(unit))[0]
    try:
        text, omap, stats = expand_unit(unit)
    except ExtractError as e:
        print(f"EXTRACT-ERROR {e}")
        sys.exit(2)
    open(os.path.join(outdir, name + ".rs"), "w", encoding="utf-8").write(text)
    json.dump({"map": omap, "rules": stats.rules, "functions": stats.functions, "pinned": stats.pinned,
               "items": stats.items}, open(os.path.join(outdir, name + ".map.json"), "w"), indent=0)
    print(f"generated {outdir}/{name}.rs ({len(omap)} lines, rules {stats.rules})")


if __name__ == "__main__":
    main()
