"""Bounded stand-in for src/main.rs (clap parsing, TXTPP_FILE guard, exit code), which Verus cannot reach
(`ExitCode::SUCCESS/FAILURE`, derive macros, process environment).  The `txtpp` binary is built from the tree under check
and run on a fixed list of small projects (10 scenarios); each expectation is tagged with the properties it speaks about.  The four
`apply_to` functions of main.rs are under a deductive contract (unit U16); this only covers `main` itself."""
import json
import os
import shutil
import subprocess
import time

VERIF = os.path.dirname(os.path.dirname(os.path.abspath(__file__)))


def build(repo, out):
    key = os.path.realpath(repo)
    tdir = os.path.join(VERIF, "replay", "target_cli") if key == "/repo" else os.path.join(out, "cli_target")
    env = dict(os.environ, CARGO_TARGET_DIR=tdir, CARGO_NET_OFFLINE="true")
    env.pop("RUSTFLAGS", None)
    p = subprocess.run(["cargo", "build", "--offline", "--release", "--quiet", "--bin", "txtpp"], cwd=key, env=env,
                       stdout=subprocess.PIPE, stderr=subprocess.PIPE, timeout=1800)
    if p.returncode != 0:
        raise RuntimeError("the txtpp binary does not build from the tree under check: " + p.stderr.decode()[-1200:])
    return os.path.join(tdir, "release", "txtpp")


def run(repo, out):
    exe = build(repo, out)
    t0 = time.time()
    work = os.path.join(out, "cliwork.%d" % os.getpid())
    failures, checked = [], 0

    def fresh(files):
        shutil.rmtree(work, ignore_errors=True)
        os.makedirs(work)
        for rel, content in files.items():
            p = os.path.join(work, rel)
            os.makedirs(os.path.dirname(p), exist_ok=True)
            with open(p, "wb") as f:
                f.write(content)

    def txtpp(args, env_extra=None):
        env = dict(os.environ)
        env.pop("TXTPP_FILE", None)
        env.update(env_extra or {})
        try:
            p = subprocess.run([exe] + args, cwd=work, env=env, stdout=subprocess.PIPE, stderr=subprocess.PIPE, timeout=60)
            return p.returncode
        except subprocess.TimeoutExpired:
            return "timeout"

    def read(rel):
        try:
            return open(os.path.join(work, rel), "rb").read()
        except OSError:
            return None

    def expect(cond, props, what, args, detail):
        nonlocal checked
        checked += 1
        if not cond:
            failures.append({"fn": "main", "props": props, "input": {"args": args, "what": what}, "expected": what, "actual": detail})

    OK = {"a.txt.txtpp": b"hello\n-TXTPP#run echo hi\n", "sub/b.txt.txtpp": b"b\n"}
    BAD = {"a.txt.txtpp": b"-TXTPP#include nope.txt\n"}

    # 1. success -> exit 0, output as documented; a sub-directory is only entered with -r
    fresh(OK)
    rc = txtpp([])
    expect(rc == 0, ["C04", "C01"], "a successful build exits with status 0", [], f"exit status {rc}")
    expect(read("a.txt") == b"hello\nhi\n\n", ["C01"], "the default build writes the output", [], repr(read("a.txt")))
    expect(read("sub/b.txt") is None, ["C11"], "sub-directories are not entered without -r", [], repr(read("sub/b.txt")))
    rc = txtpp(["-r"])
    expect(rc == 0 and read("sub/b.txt") == b"b\n", ["C11"], "-r enters sub-directories", ["-r"], f"exit {rc}, sub/b.txt={read('sub/b.txt')!r}")
    # 2. failure -> exit status != 0
    fresh(BAD)
    rc = txtpp([])
    expect(rc not in (0, "timeout"), ["C04"], "a failing build exits with a non-zero status", [], f"exit status {rc}")
    # 3. verify
    fresh(OK)
    txtpp([])
    rc = txtpp(["verify"])
    expect(rc == 0, ["C06"], "verify succeeds right after a build", ["verify"], f"exit status {rc}")
    open(os.path.join(work, "a.txt"), "ab").write(b"X")
    before = read("a.txt")
    rc = txtpp(["verify"])
    expect(rc not in (0, "timeout"), ["C06", "C04"], "verify fails on a tampered output with a non-zero status", ["verify"], f"exit status {rc}")
    expect(read("a.txt") == before, ["C06", "C10"], "verify does not modify the output", ["verify"], repr(read("a.txt")))
    # 4. -N
    fresh(OK)
    txtpp([])
    p = os.path.join(work, "a.txt")
    os.utime(p, (1_000_000_000, 1_000_000_000))
    ino = os.stat(p).st_ino
    rc = txtpp(["-N"])
    st = os.stat(p)
    expect(rc == 0 and st.st_ino == ino and int(st.st_mtime) == 1_000_000_000, ["C09"],
           "-N/--needed leaves an up-to-date output untouched (inode, mtime)", ["-N"], f"exit {rc}, mtime {st.st_mtime}")
    open(p, "wb").write(b"stale\n")
    rc = txtpp(["--needed"])
    expect(rc == 0 and read("a.txt") == b"hello\nhi\n\n", ["C09"], "--needed brings a stale output up to date", ["--needed"], f"exit {rc}, {read('a.txt')!r}")
    # 5. clean
    rc = txtpp(["clean"])
    expect(rc == 0 and read("a.txt") is None and read("a.txt.txtpp") == OK["a.txt.txtpp"], ["C07"],
           "clean removes the output, keeps the source, exits 0", ["clean"], f"exit {rc}, a.txt={read('a.txt')!r}")
    # 6. -n / --no-trailing-newline
    fresh({"a.txt.txtpp": b"one\ntwo\n"})
    rc = txtpp(["-n"])
    expect(rc == 0 and read("a.txt") == b"one\ntwo", ["C13"], "-n omits exactly the final line ending", ["-n"], f"exit {rc}, {read('a.txt')!r}")
    rc1, rc2 = txtpp(["verify", "-n"]), txtpp(["verify"])
    expect(rc1 == 0 and rc2 not in (0, "timeout"), ["C13", "C06"], "verify takes the same option: passes with -n, fails without", ["verify", "-n"], f"exit {rc1} / {rc2}")
    rc = txtpp([])
    expect(rc == 0 and read("a.txt") == b"one\ntwo\n", ["C13"], "the default adds the final line ending", [], repr(read("a.txt")))
    # 7. the TXTPP_FILE guard
    fresh(OK)
    rc = txtpp([], {"TXTPP_FILE": "x.txtpp"})
    expect(rc not in (0, "timeout") and read("a.txt") is None, ["C17"], "txtpp refuses to run as a sub-command of a run directive (TXTPP_FILE set)", [], f"exit {rc}, a.txt={read('a.txt')!r}")
    # 8. -j 0
    fresh(OK)
    rc = txtpp(["-j", "0"])
    expect(rc == 0 and read("a.txt") == b"hello\nhi\n\n", ["C18"], "-j 0 neither panics nor hangs", ["-j", "0"], f"exit {rc}")
    # 9. a named output selects its source; a missing one is an error
    fresh({"a.txt.txtpp": b"a\n", "c.txt.txtpp": b"c\n"})
    rc = txtpp(["a.txt"])
    expect(rc == 0 and read("a.txt") == b"a\n" and read("c.txt") is None, ["C11"], "only the requested source is processed", ["a.txt"], f"exit {rc}, c.txt={read('c.txt')!r}")
    rc = txtpp(["nothere.txt"])
    expect(rc not in (0, "timeout"), ["C11", "C04"], "an input without a source is an error", ["nothere.txt"], f"exit {rc}")
    # 10. a write the system cuts short (file-size limit of 4 KiB, SIGXFSZ ignored): success is only reported for complete files
    def limited(args):
        import shlex
        cmd = "trap '' XFSZ; ulimit -f 8; exec " + " ".join(shlex.quote(a) for a in [exe] + args)
        env = dict(os.environ)
        env.pop("TXTPP_FILE", None)
        try:
            return subprocess.run(["sh", "-c", cmd], cwd=work, env=env, stdout=subprocess.PIPE, stderr=subprocess.PIPE, timeout=60).returncode
        except subprocess.TimeoutExpired:
            return "timeout"
    body = (b"y" * 63 + b"\n") * 2048
    tbody = b"".join(b"-" + b"z" * 62 + b"\n" for _ in range(2048))
    for args in ([], ["-N"]):
        fresh({"big.txt.txtpp": body})
        rc = limited(args)
        got = read("big.txt")
        expect(rc != "timeout" and (rc != 0 or got == body), ["C04"], "a build whose output could not be written completely does not exit with status 0",
               args, f"exit {rc}, big.txt has {len(got) if got is not None else None} of {len(body)} bytes")
    fresh({"t.txt.txtpp": b"-TXTPP#temp big.tmp\n" + tbody + b"end\n"})
    rc = limited([])
    got = read("big.tmp")
    expect(rc != "timeout" and (rc != 0 or (got is not None and len(got) == len(tbody) - 2048 - 1)), ["C04"],
           "a build whose temp file could not be written completely does not exit with status 0", [], f"exit {rc}, big.tmp has {len(got) if got is not None else None} bytes")
    shutil.rmtree(work, ignore_errors=True)
    return {"mode": "cli", "checked": checked, "failures": failures, "wall_s": round(time.time() - t0, 2),
            "bound": "the txtpp binary built from the tree under check on 10 fixed command-line scenarios (exit status of success / failure / verify, -N, clean, -n, TXTPP_FILE guard, -j 0, input selection, -r, writes cut short by a 4 KiB file-size limit)"}
