"""Thorough tier (./check Cxx --tier thorough), on top of everything the quick tier does:

1. solver stability: every unit of the property is re-verified with three other Z3 random seeds and with a halved and a
   tripled resource limit.  A run that does not reproduce the proof is reported as *unstable* (undecided information in
   the evidence), never as a violation: a failed proof search is not a counterexample.
2. deeper bounded stand-ins: the replay modes of the property (and of its units) are run with VERIF_DEEP=1 (longer
   lines, more thread counts); a concrete failing input tagged with this property is a violation with a replay file.
3. self-test on the stored seeded changes of this property (/verif/seeded/<Cxx>-*/patch.diff): each is applied to a
   scratch copy of the repo and the quick check must report a violation.  A change that is not caught is recorded as a
   weakness of the check (mutants_killed / mutants_total); it says nothing about the tree under check.
"""
import json
import os
import shutil
import subprocess
import sys
import tempfile
import time

VERIF = os.path.dirname(os.path.dirname(os.path.abspath(__file__)))


def run(prop, pcfg, cfg, results, seed):
    C = sys.modules["__main__"]
    info, violations, undecided = {}, [], []
    repo = os.environ.get("VERIF_REPO", "/repo")
    out = C.OUT

    # ---- 1. solver stability
    stab = []
    for r in results:
        if r.status != "ok" or not r.gen_path:
            continue
        extra = cfg["units"][r.name].get("verus_args") or None
        variants = [("seed", seed + 11, None), ("seed", seed + 23, None), ("seed", seed + 37, None), ("rlimit", None, 5), ("rlimit", None, 30)]
        for kind, sd, rl in variants:
            t0 = time.time()
            rc, res, diags, err, wall, cmd = C.run_verus(r.gen_path, extra=extra, rlimit=rl, seed=sd)
            vr = (res or {}).get("verification-results", {})
            ok = bool(vr.get("success")) and vr.get("errors", 1) == 0
            stab.append({"unit": r.name, "variant": f"{kind}={sd if kind == 'seed' else rl}", "verified": vr.get("verified"),
                         "errors": vr.get("errors"), "reproduced": ok, "wall_s": round(time.time() - t0, 1)})
    info["solver_stability"] = stab
    info["unstable_runs"] = len([s for s in stab if not s["reproduced"]])

    # ---- 2. deeper bounded stand-ins
    deep = []
    try:
        import witness
        modes = list(pcfg.get("bounded", []))
        for u in pcfg.get("units", []):
            for m in witness.modes_for(u, None):
                if m not in modes:
                    modes.append(m)
        os.environ["VERIF_DEEP"] = "1"
        os.environ["VERIF_NO_CACHE"] = "1"
        witness._results.clear()
        for mode in modes:
            d = witness._run_mode(mode, repo, out)
            mine = witness.failures_for(d, prop)
            deep.append({"mode": mode, "bound": d["bound"], "checked": d["checked"], "failures": len(mine), "wall_s": d["wall_s"],
                         "label": "BOUNDED (deep) stand-in, not counted as proved"})
            for fl in mine[:1]:
                violations.append({"unit": "replay", "fn": fl["fn"], "message": "bounded (deep) contract check failed on the real code",
                                   "rendered": json.dumps(fl, indent=1), "label": None, "clause": None, "repo_site": None,
                                   "obligation": f"bounded-deep/{mode}/{fl['fn']} (bound: {d['bound']})",
                                   "witness": {"mode": mode, "bound": d["bound"], "checked": d["checked"], "failing_input": fl}})
    except Exception as e:  # the stand-in never decides on its own failure
        undecided.append(("replay", f"deep bounded harness failed: {str(e)[:300]}"))
    finally:
        os.environ.pop("VERIF_DEEP", None)
        os.environ.pop("VERIF_NO_CACHE", None)
    info["bounded_deep"] = deep

    # ---- 3. seeded changes of this property
    killed, total, detail = 0, 0, []
    sdir = os.path.join(VERIF, "seeded")

    def one(name):
        patch = os.path.join(sdir, name, "patch.diff")
        d = tempfile.mkdtemp(prefix="verif-selftest.")
        try:
            shutil.copytree(os.path.join(repo, "src"), os.path.join(d, "src"))
            for f in ("Cargo.toml", "Cargo.lock"):
                shutil.copy(os.path.join(repo, f), os.path.join(d, f))
            p = subprocess.run(["patch", "-s", "-p1", "-i", patch], cwd=d, stdout=subprocess.PIPE, stderr=subprocess.STDOUT)
            if p.returncode != 0:
                return {"change": name, "result": "patch does not apply to the tree under check"}, None
            env = dict(os.environ, VERIF_REPO=d, VERIF_OUT_DIR=os.path.join(d, "out"), VERIF_NO_SELFTEST="1", VERIF_TIER="quick")
            env.pop("VERIF_DEEP", None)
            q = subprocess.run([sys.executable, os.path.join(VERIF, "check"), prop, "--tier", "quick"], env=env,
                               stdout=subprocess.PIPE, stderr=subprocess.STDOUT, timeout=3600)
            text = q.stdout.decode(errors="replace")
            obl = [ln.strip() for ln in text.split("\n") if "failed obligation:" in ln]
            caught = q.returncode == 1 and "VIOLATION property=" + prop in text
            return {"change": name, "result": "caught" if caught else f"NOT caught (exit {q.returncode})",
                    "obligations": [o[:200] for o in obl[:3]]}, caught
        finally:
            shutil.rmtree(d, ignore_errors=True)

    if os.path.isdir(sdir) and not os.environ.get("VERIF_NO_SELFTEST"):
        names = [n for n in sorted(os.listdir(sdir)) if n.startswith(prop + "-") and os.path.exists(os.path.join(sdir, n, "patch.diff"))]
        from concurrent.futures import ThreadPoolExecutor
        with ThreadPoolExecutor(max_workers=3) as ex:
            for rec, caught in ex.map(one, names):
                if caught is None:
                    detail.append(rec)
                    continue
                total += 1
                killed += 1 if caught else 0
                detail.append(rec)
    info["mutants_total"], info["mutants_killed"], info["mutants"] = total, killed, detail

    # ---- 4. behaviour-preserving changes (/verif/neutral/<id>/patch.diff): this check must not report a violation
    ndir = os.path.join(VERIF, "neutral")
    alarms, ndetail = 0, []

    def neutral_one(name):
        patch = os.path.join(ndir, name, "patch.diff")
        d = tempfile.mkdtemp(prefix="verif-neutral.")
        try:
            shutil.copytree(os.path.join(repo, "src"), os.path.join(d, "src"))
            for f in ("Cargo.toml", "Cargo.lock"):
                shutil.copy(os.path.join(repo, f), os.path.join(d, f))
            p = subprocess.run(["patch", "-s", "-p1", "-i", patch], cwd=d, stdout=subprocess.PIPE, stderr=subprocess.STDOUT)
            if p.returncode != 0:
                return {"change": name, "result": "patch does not apply to the tree under check"}
            env = dict(os.environ, VERIF_REPO=d, VERIF_OUT_DIR=os.path.join(d, "out"), VERIF_NO_SELFTEST="1", VERIF_TIER="quick")
            env.pop("VERIF_DEEP", None)
            q = subprocess.run([sys.executable, os.path.join(VERIF, "check"), prop, "--tier", "quick"], env=env,
                               stdout=subprocess.PIPE, stderr=subprocess.STDOUT, timeout=3600)
            return {"change": name, "exit": q.returncode, "result": {0: "OK", 1: "FALSE ALARM", 2: "undecided"}.get(q.returncode, "?")}
        finally:
            shutil.rmtree(d, ignore_errors=True)

    if os.path.isdir(ndir) and not os.environ.get("VERIF_NO_SELFTEST"):
        # only changes that touch a file this property's units read
        unit_files = set()
        for r in results:
            for f in r.extracted:
                unit_files.add(f.get("file"))
        names = []
        for n in sorted(os.listdir(ndir)):
            mp = os.path.join(ndir, n, "meta.json")
            if os.path.exists(mp) and set(json.load(open(mp)).get("files", [])) & unit_files:
                names.append(n)
        from concurrent.futures import ThreadPoolExecutor
        with ThreadPoolExecutor(max_workers=3) as ex:
            for rec in ex.map(neutral_one, names):
                ndetail.append(rec)
                if rec.get("exit") == 1:
                    alarms += 1
    info["neutral_total"], info["neutral_false_alarms"], info["neutral"] = len(ndetail), alarms, ndetail
    return violations, undecided, info
