"""Witness search / bounded stand-in: builds /verif/replay against the repo under check (with the
--cfg pistonite_txtpp_verif re-exports) and runs the REAL code on an enumerated corpus, evaluating a contract clause
against an executable transcription of the spec.  Never decides anything on its own: a failure is a concrete input on
which the real code violates the contract (replayable); no failure means nothing."""
import json
import os
import shutil
import subprocess
import time

VERIF = os.path.dirname(os.path.dirname(os.path.abspath(__file__)))

# which replay modes exercise which (unit, function)
MODES = {
    ("U3_directive", "detect_from"): ["detect"],
    ("U3_directive", "add_line"): ["add_line"],
    ("U3_directive", "try_from"): ["detect"],
    ("U3_directive", "supports_multi_line"): ["add_line"],
    ("U7_depmgr", None): ["depmgr"],
    ("U6_tags", "replace_line_ending"): ["replace_le"],
    ("U6_tags", "inject_tags"): ["inject"],
    ("U6_tags", None): ["inject", "replace_le"],
    ("U3_directive", None): ["detect", "add_line"],
    # whole-program stand-in (real Txtpp::run on generated projects vs. the reference interpreter / metamorphic runs)
    ("U1_line_ending", None): ["system"],
    ("U9_paths", None): ["system"],
    ("U11_ioctx", None): ["system"],
    ("U12_shell", None): ["system"],
    ("U13_pp_exec", None): ["system"],
    ("U14_pp_loop", None): ["system"],
    ("U15_coordinator", None): ["system"],
}

_built = {}


def build(repo, out):
    """returns path of the replay binary built against `repo`, or raises"""
    key = os.path.realpath(repo)
    if key in _built:
        return _built[key]
    if key == "/repo":
        bdir = os.path.join(VERIF, "replay")
        tdir = os.path.join(VERIF, "replay", "target")
    else:
        bdir = os.path.join(out, "replay_build")
        tdir = os.path.join(out, "replay_target")
        os.makedirs(os.path.join(bdir, "src"), exist_ok=True)
        for f in os.listdir(os.path.join(VERIF, "replay", "src")):
            shutil.copy(os.path.join(VERIF, "replay", "src", f), os.path.join(bdir, "src", f))
        # a scratch copy made by tools/try_patch.sh holds src/ only: complete it from /repo
        for f in ("Cargo.toml", "Cargo.lock"):
            if not os.path.exists(os.path.join(repo, f)):
                shutil.copy(os.path.join("/repo", f), os.path.join(repo, f))
    tmpl = open(os.path.join(VERIF, "replay", "Cargo.toml.tmpl")).read().replace("@REPO@", key)
    open(os.path.join(bdir, "Cargo.toml"), "w").write(tmpl)
    if os.path.exists(os.path.join(key, "Cargo.lock")):
        shutil.copy(os.path.join(key, "Cargo.lock"), os.path.join(bdir, "Cargo.lock"))
    env = dict(os.environ, RUSTFLAGS="--cfg pistonite_txtpp_verif", CARGO_TARGET_DIR=tdir, CARGO_NET_OFFLINE="true")
    p = subprocess.run(["cargo", "build", "--offline", "--release", "--quiet"], cwd=bdir, env=env,
                       stdout=subprocess.PIPE, stderr=subprocess.PIPE, timeout=1800)
    if p.returncode != 0:
        raise RuntimeError("replay crate does not build against the tree under check: " + p.stderr.decode()[-1500:])
    exe = os.path.join(tdir, "release", "txtpp-verif-replay")
    _built[key] = exe
    return exe


def tree_hash(repo):
    import hashlib
    h = hashlib.sha256()
    roots = [os.path.join(repo, "src"), os.path.join(VERIF, "replay", "src")]
    files = [os.path.join(repo, "Cargo.toml")]
    for r in roots:
        for dp, dn, fn in os.walk(r):
            dn.sort()
            files += [os.path.join(dp, f) for f in sorted(fn)]
    for f in files:
        if os.path.exists(f):
            h.update(f.encode() + b"\0" + open(f, "rb").read() + b"\0")
    return h.hexdigest()[:20]


def failures_for(d, prop):
    """failures of a mode run that speak about `prop` (modes without per-failure property tags speak about all)"""
    return [f for f in d["failures"] if "props" not in f or prop in f["props"]]


_results = {}


def run_mode(mode, repo, out):
    """the result is a function of the tree under check and of the harness sources: it is computed once per content
    hash (in-process and, for the 30 s system mode, on disk under <out>/modecache), and marked cached when reused"""
    # the random part of the system mode is a function of VERIF_SEED, its size of VERIF_DEEP
    key = (mode, tree_hash(repo) + "-s" + "".join(c for c in os.environ.get("VERIF_SEED", "0") if c.isalnum())[:20]
           + ("-deep" if os.environ.get("VERIF_DEEP") else ""))
    if key in _results:
        return dict(_results[key], cached=True)
    cpath = os.path.join(out, "modecache", f"{mode}-{key[1]}.json")
    if mode in ("system", "cli") and os.path.exists(cpath) and time.time() - os.path.getmtime(cpath) < 3600 \
            and not os.environ.get("VERIF_NO_CACHE"):
        try:
            d = json.load(open(cpath))
            _results[key] = d
            return dict(d, cached=True)
        except Exception:
            pass
    d = _run_mode(mode, repo, out)
    _results[key] = d
    if mode in ("system", "cli"):
        os.makedirs(os.path.dirname(cpath), exist_ok=True)
        tmp = cpath + ".%d.tmp" % os.getpid()
        json.dump(d, open(tmp, "w"))
        os.replace(tmp, cpath)   # atomic: checks of several properties may run at the same time
    return d


def _run_mode(mode, repo, out):
    if mode == "cli":
        import cli_mode
        return cli_mode.run(repo, out)
    exe = build(repo, out)
    t0 = time.time()
    argv = [exe, mode]
    if mode == "system":
        argv.append(os.path.join(out, "syswork.%d" % os.getpid()))
    p = subprocess.run(argv, stdout=subprocess.PIPE, stderr=subprocess.PIPE, timeout=1800)
    try:
        d = json.loads(p.stdout.decode())
    except Exception:
        raise RuntimeError(f"replay {mode}: no JSON (rc={p.returncode}): {p.stderr.decode()[-500:]}")
    d["wall_s"] = round(time.time() - t0, 2)
    return d


def modes_for(unit, fn):
    return MODES.get((unit, fn)) or MODES.get((unit, None)) or []


def search(prop, failure, repo, out=None):
    """witness for a failed obligation: first failing corpus input of the modes mapped to the failing function"""
    out = out or os.path.join(VERIF, "replay", "out")
    for mode in modes_for(failure.get("unit"), failure.get("fn")):
        d = run_mode(mode, repo, out)
        mine = failures_for(d, prop)
        if mine:
            return {"mode": mode, "bound": d["bound"], "checked": d["checked"], "failing_input": mine[0]}
    return None


def replay(record, repo):
    """re-run the mode that produced the witness; exit status 1 if the real code still fails on a corpus input"""
    w = record["witness"]
    os.environ["VERIF_NO_CACHE"] = "1"
    d = run_mode(w["mode"], repo, os.path.join(VERIF, "replay", "out"))
    mine = failures_for(d, record.get("property", ""))
    if mine:
        print("real code still violates the contract; first failing input:")
        print(json.dumps(mine[0], indent=1))
        return 1
    print(f"no failing input any more ({d['checked']} cases, bound: {d['bound']})")
    return 0
