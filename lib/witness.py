"""Witness search / bounded stand-in: builds /verif/replay against the repo under check (with the
--cfg pistonite_txtpp_verif re-exports) and runs the REAL code on an enumerated corpus, evaluating a contract clause
against an executable transcription of the spec.  Never decides anything on its own: a failure is a concrete input on
which the real code violates the contract (replayable); no failure means nothing."""
import json
import os
import shutil
import subprocess
import time

VERIF = os.path.dirname(os.path.dirname(os.path.abspath(__file__)))

# which replay modes exercise which (unit, function)
MODES = {
    ("U3_directive", "detect_from"): ["detect"],
    ("U3_directive", "add_line"): ["add_line"],
    ("U3_directive", "try_from"): ["detect"],
    ("U3_directive", "supports_multi_line"): ["add_line"],
    ("U7_depmgr", None): ["depmgr"],
    ("U6_tags", "replace_line_ending"): ["replace_le"],
    ("U6_tags", "inject_tags"): ["inject"],
    ("U6_tags", None): ["inject", "replace_le"],
    ("U3_directive", None): ["detect", "add_line"],
}

_built = {}


def build(repo, out):
    """returns path of the replay binary built against `repo`, or raises"""
    key = os.path.realpath(repo)
    if key in _built:
        return _built[key]
    if key == "/repo":
        bdir = os.path.join(VERIF, "replay")
        tdir = os.path.join(VERIF, "replay", "target")
    else:
        bdir = os.path.join(out, "replay_build")
        tdir = os.path.join(out, "replay_target")
        os.makedirs(os.path.join(bdir, "src"), exist_ok=True)
        shutil.copy(os.path.join(VERIF, "replay", "src", "main.rs"), os.path.join(bdir, "src", "main.rs"))
        # a scratch copy made by tools/try_patch.sh holds src/ only: complete it from /repo
        for f in ("Cargo.toml", "Cargo.lock"):
            if not os.path.exists(os.path.join(repo, f)):
                shutil.copy(os.path.join("/repo", f), os.path.join(repo, f))
    tmpl = open(os.path.join(VERIF, "replay", "Cargo.toml.tmpl")).read().replace("@REPO@", key)
    open(os.path.join(bdir, "Cargo.toml"), "w").write(tmpl)
    if os.path.exists(os.path.join(key, "Cargo.lock")):
        shutil.copy(os.path.join(key, "Cargo.lock"), os.path.join(bdir, "Cargo.lock"))
    env = dict(os.environ, RUSTFLAGS="--cfg pistonite_txtpp_verif", CARGO_TARGET_DIR=tdir, CARGO_NET_OFFLINE="true")
    p = subprocess.run(["cargo", "build", "--offline", "--release", "--quiet"], cwd=bdir, env=env,
                       stdout=subprocess.PIPE, stderr=subprocess.PIPE, timeout=1800)
    if p.returncode != 0:
        raise RuntimeError("replay crate does not build against the tree under check: " + p.stderr.decode()[-1500:])
    exe = os.path.join(tdir, "release", "txtpp-verif-replay")
    _built[key] = exe
    return exe


def run_mode(mode, repo, out):
    exe = build(repo, out)
    t0 = time.time()
    p = subprocess.run([exe, mode], stdout=subprocess.PIPE, stderr=subprocess.PIPE, timeout=1800)
    try:
        d = json.loads(p.stdout.decode())
    except Exception:
        raise RuntimeError(f"replay {mode}: no JSON (rc={p.returncode}): {p.stderr.decode()[-500:]}")
    d["wall_s"] = round(time.time() - t0, 2)
    return d


def modes_for(unit, fn):
    return MODES.get((unit, fn)) or MODES.get((unit, None)) or []


def search(prop, failure, repo, out=None):
    """witness for a failed obligation: first failing corpus input of the modes mapped to the failing function"""
    out = out or os.path.join(VERIF, "replay", "out")
    for mode in modes_for(failure.get("unit"), failure.get("fn")):
        d = run_mode(mode, repo, out)
        if d["failures"]:
            return {"mode": mode, "bound": d["bound"], "checked": d["checked"], "failing_input": d["failures"][0]}
    return None


def replay(record, repo):
    """re-run the mode that produced the witness; exit status 1 if the real code still fails on a corpus input"""
    w = record["witness"]
    d = run_mode(w["mode"], repo, os.path.join(VERIF, "replay", "out"))
    if d["failures"]:
        print("real code still violates the contract; first failing input:")
        print(json.dumps(d["failures"][0], indent=1))
        return 1
    print(f"no failing input any more ({d['checked']} cases, bound: {d['bound']})")
    return 0
