// ---- prelude/std_path.rs : TRUSTED model of file names and extensions (std::path docs), on top of std_fs.rs.
// A path is abstract (PathV); only its final component (file name) is given structure.

/// Path::file_name: the final component, if there is one
pub uninterp spec fn p_name(p: PathV) -> Option<Seq<u8>>;
/// the path with the same parent and `n` as final component
pub uninterp spec fn p_with_name(p: PathV, n: Seq<u8>) -> PathV;

#[verifier::external_body]
pub broadcast proof fn axiom_with_name(p: PathV, n: Seq<u8>)
    ensures
        n.len() > 0 ==> #[trigger] p_name(p_with_name(p, n)) == Some(n),
{
}

#[verifier::external_body]
pub broadcast proof fn axiom_with_name_twice(p: PathV, a: Seq<u8>, b: Seq<u8>)
    ensures
        #[trigger] p_with_name(p_with_name(p, a), b) == p_with_name(p, b),
{
}

#[verifier::external_body]
pub broadcast proof fn axiom_with_own_name(p: PathV)
    ensures
        p_name(p) is Some ==> #[trigger] p_with_name(p, p_name(p)->Some_0) == p,
{
}

/// index of the last '.' in a file name
pub open spec fn last_dot(n: Seq<u8>) -> Option<int>
    decreases n.len(),
{
    if n.len() == 0 {
        None
    } else if n.last() == 46u8 {
        Some(n.len() - 1)
    } else {
        last_dot(n.drop_last())
    }
}

/// Path::extension on the file name (std docs): None if there is no '.', or the only '.' is the first byte;
/// otherwise the portion after the final '.'
pub open spec fn name_ext(n: Seq<u8>) -> Option<Seq<u8>> {
    match last_dot(n) {
        Some(i) => if i > 0 { Some(n.skip(i + 1)) } else { None },
        None => None,
    }
}

/// Path::file_stem on the file name: the portion before the final '.', or the whole name where there is no extension
pub open spec fn name_stem(n: Seq<u8>) -> Seq<u8> {
    match last_dot(n) {
        Some(i) => if i > 0 { n.take(i) } else { n },
        None => n,
    }
}

/// PathBuf::set_extension on the file name: stem, then ".ext" unless ext is empty
pub open spec fn name_set_ext(n: Seq<u8>, e: Seq<u8>) -> Seq<u8> {
    if e.len() == 0 { name_stem(n) } else { name_stem(n) + seq![46u8] + e }
}

pub open spec fn path_ext(p: PathV) -> Option<Seq<u8>> {
    match p_name(p) {
        Some(n) => name_ext(n),
        None => None,
    }
}

pub open spec fn path_set_ext(p: PathV, e: Seq<u8>) -> PathV {
    match p_name(p) {
        Some(n) => p_with_name(p, name_set_ext(n, e)),
        None => p,
    }
}

#[verifier::external_type_specification]
#[verifier::external_body]
pub struct ExOsStr(std::ffi::OsStr);

#[verifier::external_type_specification]
#[verifier::external_body]
pub struct ExOsString(std::ffi::OsString);

pub uninterp spec fn osstr_v(s: &std::ffi::OsStr) -> Seq<u8>;
pub uninterp spec fn osstring_v(s: &std::ffi::OsString) -> Seq<u8>;
/// the OS string a `S: AsRef<OsStr>` argument designates
pub uninterp spec fn aso<S>(s: S) -> Seq<u8>;

#[verifier::external_body]
pub broadcast proof fn axiom_aso_str(s: &str)
    ensures
        #[trigger] aso::<&str>(s) == s.spec_bytes(),
{
}

#[verifier::external_body]
pub broadcast proof fn axiom_aso_osstr(s: &std::ffi::OsStr)
    ensures
        #[trigger] aso::<&std::ffi::OsStr>(s) == osstr_v(s),
{
}

#[verifier::external_body]
pub broadcast proof fn axiom_aso_osstring(s: std::ffi::OsString)
    ensures
        #[trigger] aso::<std::ffi::OsString>(s) == osstring_v(&s),
{
}

pub assume_specification[ std::path::Path::extension ](p: &std::path::Path) -> (r: Option<&std::ffi::OsStr>)
    ensures
        (r is Some) == (path_ext(pv(p)) is Some),
        r is Some ==> osstr_v(r->Some_0) == path_ext(pv(p))->Some_0,
;

pub assume_specification<S: core::convert::AsRef<std::ffi::OsStr>>[ std::path::PathBuf::set_extension::<S> ](p: &mut std::path::PathBuf, ext: S) -> (r: bool)
    ensures
        pbv(final(p)) == path_set_ext(pbv(old(p)), aso(ext)),
        r == (p_name(pbv(old(p))) is Some),
;

pub assume_specification[ <std::path::PathBuf as Clone>::clone ](p: &std::path::PathBuf) -> (r: std::path::PathBuf)
    ensures
        pbv(&r) == pbv(p),
;

pub assume_specification[ <std::path::PathBuf as core::ops::Deref>::deref ](p: &std::path::PathBuf) -> (r: &std::path::Path)
    ensures
        pv(r) == pbv(p),
;

/// R7 shim: `ext == TXTPP_EXT` between an `&OsStr` and a `&str` (std's PartialEq<str> for OsStr): byte-wise equality
#[verifier::external_body]
pub fn osstr_eq_str(a: &std::ffi::OsStr, b: &str) -> (r: bool)
    ensures
        r == (osstr_v(a) == b.spec_bytes()),
{
    a == b
}

pub assume_specification[ std::ffi::OsStr::to_os_string ](s: &std::ffi::OsStr) -> (r: std::ffi::OsString)
    ensures
        osstring_v(&r) == osstr_v(s),
;

pub assume_specification<T: core::convert::AsRef<std::ffi::OsStr>>[ std::ffi::OsString::push::<T> ](s: &mut std::ffi::OsString, t: T) -> ()
    ensures
        osstring_v(final(s)) == osstring_v(old(s)) + aso::<T>(t),
;

pub assume_specification[ std::path::Path::is_file ](p: &std::path::Path) -> (r: bool)
    ensures
        r == fs_is_file(pv(p)),
;

pub uninterp spec fn fs_is_file(p: PathV) -> bool;

pub assume_specification[ std::path::Path::file_name ](p: &std::path::Path) -> (r: Option<&std::ffi::OsStr>)
    ensures
        (r is Some) == (p_name(pv(p)) is Some),
        r is Some ==> osstr_v(r->Some_0) == p_name(pv(p))->Some_0,
;

/// PathBuf::set_file_name (std docs): replaces the final component (a path with a final component is assumed)
pub assume_specification<S: core::convert::AsRef<std::ffi::OsStr>>[ std::path::PathBuf::set_file_name::<S> ](p: &mut std::path::PathBuf, name: S)
    ensures
        p_name(pbv(old(p))) is Some ==> pbv(final(p)) == p_with_name(pbv(old(p)), aso(name)),
;

pub assume_specification<'a, T: ?Sized + core::convert::AsRef<std::ffi::OsStr>>[ <std::ffi::OsString as core::convert::From<&'a T>>::from ](s: &T) -> (r: std::ffi::OsString)
    ensures
        osstring_v(&r) == aso::<&T>(s),
;

pub assume_specification[ <std::ffi::OsString as core::default::Default>::default ]() -> (r: std::ffi::OsString)
    ensures
        osstring_v(&r) == Seq::<u8>::empty(),
;

pub assume_specification[ std::ffi::OsString::new ]() -> (r: std::ffi::OsString)
    ensures
        osstring_v(&r) == Seq::<u8>::empty(),
;
