// ---- prelude/std_process.rs : TRUSTED model of std::process::Command (builder view) and of running it.
// A command is a black box (A4): its result is an uninterpreted function of the command's view.

#[verifier::external_type_specification]
#[verifier::external_body]
pub struct ExCommand(std::process::Command);

#[verifier::external_type_specification]
#[verifier::external_body]
pub struct ExExitStatus(std::process::ExitStatus);

#[verifier::external_type_specification]
pub struct ExOutput(std::process::Output);

/// what will be executed: program, argument list, working directory, added environment
pub struct CmdV {
    pub prog: Seq<u8>,
    pub args: Seq<Seq<u8>>,
    pub cwd: Option<PathV>,
    pub env: Seq<(Seq<u8>, Seq<u8>)>,
}

pub uninterp spec fn cv(c: &std::process::Command) -> CmdV;
/// the OS string a `S: AsRef<OsStr>` argument designates
pub uninterp spec fn osv<S>(s: S) -> Seq<u8>;
/// A4: running a command is a deterministic black box of what is executed (and of the world)
pub uninterp spec fn run_result(c: CmdV) -> std::io::Result<std::process::Output>;
pub uninterp spec fn status_success(s: &std::process::ExitStatus) -> bool;

#[verifier::external_body]
pub broadcast proof fn axiom_osv_ref<S>(s: &S)
    ensures
        #[trigger] osv::<&S>(s) == osv::<S>(*s),
{
}

#[verifier::external_body]
pub broadcast proof fn axiom_osv_string(s: String)
    ensures
        #[trigger] osv::<String>(s) == vstd::utf8::encode_utf8(s@),
{
}

#[verifier::external_body]
pub broadcast proof fn axiom_osv_str(s: &str)
    ensures
        #[trigger] osv::<&str>(s) == s.spec_bytes(),
{
}

pub assume_specification<S: core::convert::AsRef<std::ffi::OsStr>>[ std::process::Command::new::<S> ](program: S) -> (r: std::process::Command)
    ensures
        cv(&r) == (CmdV { prog: osv(program), args: Seq::empty(), cwd: None, env: Seq::empty() }),
;

pub assume_specification<'b, Q: core::convert::AsRef<std::path::Path>>[ std::process::Command::current_dir::<Q> ](c: &'b mut std::process::Command, dir: Q) -> (r: &'b mut std::process::Command)
    ensures
        cv(r) == (CmdV { cwd: Some(arp(dir)), ..cv(old(c)) }),
        cv(final(c)) == cv(final(r)),
;

pub assume_specification<'b, S: core::convert::AsRef<std::ffi::OsStr>>[ std::process::Command::arg::<S> ](c: &'b mut std::process::Command, a: S) -> (r: &'b mut std::process::Command)
    ensures
        cv(r) == (CmdV { args: cv(old(c)).args.push(osv(a)), ..cv(old(c)) }),
        cv(final(c)) == cv(final(r)),
;

/// the OS strings an `I: IntoIterator<Item = S>` argument yields, in order
pub uninterp spec fn osv_seq<I>(i: I) -> Seq<Seq<u8>>;

#[verifier::external_body]
pub broadcast proof fn axiom_osv_seq_vec_string(v: &Vec<String>)
    ensures
        #[trigger] osv_seq::<&Vec<String>>(v) == v@.map_values(|s: String| vstd::utf8::encode_utf8(s@)),
{
}

pub assume_specification<'b, I: core::iter::IntoIterator<Item = S>, S: core::convert::AsRef<std::ffi::OsStr>>[ std::process::Command::args::<I, S> ](c: &'b mut std::process::Command, a: I) -> (r: &'b mut std::process::Command)
    ensures
        cv(r) == (CmdV { args: cv(old(c)).args + osv_seq(a), ..cv(old(c)) }),
        cv(final(c)) == cv(final(r)),
;

pub assume_specification<'b, K: core::convert::AsRef<std::ffi::OsStr>, V: core::convert::AsRef<std::ffi::OsStr>>[ std::process::Command::env::<K, V> ](c: &'b mut std::process::Command, k: K, v: V) -> (r: &'b mut std::process::Command)
    ensures
        cv(r) == (CmdV { env: cv(old(c)).env.push((osv(k), osv(v))), ..cv(old(c)) }),
        cv(final(c)) == cv(final(r)),
;

pub assume_specification[ std::process::Command::output ](c: &mut std::process::Command) -> (r: std::io::Result<std::process::Output>)
    ensures
        r == run_result(cv(old(c))),
;

pub assume_specification[ std::process::ExitStatus::success ](s: &std::process::ExitStatus) -> (r: bool)
    ensures
        r == status_success(s),
;

pub assume_specification[ std::process::ExitStatus::code ](s: &std::process::ExitStatus) -> (r: Option<i32>);
