// ---- prelude/coord_shims.rs : TRUSTED stand-ins used by the coordinator unit (U15), plain Rust (outside verus!).
// Types from dependency crates (threadpool, termcolor) and crate types that are only passed around here.

pub mod threadpool {
    pub struct ThreadPool { pub n: usize }
    pub struct Builder { pub n: Option<usize> }
    impl Builder {
        pub fn new() -> Builder { Builder { n: None } }
        /// threadpool-1.8.1 src/lib.rs:209: `assert!(num_threads > 0)`
        pub fn num_threads(mut self, num_threads: usize) -> Builder { assert!(num_threads > 0); self.n = Some(num_threads); self }
        pub fn build(self) -> ThreadPool { ThreadPool { n: self.n.unwrap_or(1) } }
    }
    impl ThreadPool {
        pub fn join(&self) {}
    }
}

pub mod termcolor {
    #[derive(Clone, Copy)]
    pub enum Color { Red, Green, Yellow }
    pub struct StandardStream;
}

/// crate::fs::AbsPath (abs_path.rs:17-28): only used as a value / hash key here (Clone, Eq, Hash on `p`)
#[derive(Clone, PartialEq, Eq, Hash, Debug)]
pub struct AbsPath {
    p: std::path::PathBuf,
}
impl std::fmt::Display for AbsPath {
    fn fmt(&self, f: &mut std::fmt::Formatter<'_>) -> std::fmt::Result { write!(f, "{}", self.p.display()) }
}

/// crate::fs::Shell: only passed to workers here
#[derive(Debug)]
pub struct Shell {
    exe: String,
}
impl std::fmt::Display for Shell {
    fn fmt(&self, f: &mut std::fmt::Formatter<'_>) -> std::fmt::Result { write!(f, "{}", self.exe) }
}

#[derive(Debug)]
pub struct ShellError;
