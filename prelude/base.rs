// ---- prelude/base.rs : TRUSTED. Opaque stand-ins introduced by rewrite rules R2/R3.
// R3: message text of format!/write! is dropped; the result is an unconstrained String / fmt::Result.
#[verifier::external_body]
pub fn fmt_opaque() -> (s: String)
{ unimplemented!() }

#[verifier::external_body]
pub fn fmt_write_opaque() -> (r: core::result::Result<(), core::fmt::Error>)
{ unimplemented!() }

/// A `str` is at most isize::MAX bytes long (allocation limit of Rust objects).
#[verifier::external_body]
pub broadcast proof fn axiom_str_len_bound(s: &str)
    ensures
        #[trigger] s.spec_bytes().len() <= usize::MAX,
{
}


