// ---- prelude/std_fs.rs : TRUSTED snapshot model of the file system and of std::fs / std::io / std::path.
// A path value is abstract (PathV); the file system is observed through uninterpreted functions that
// stand for its state at the time of the call (DESIGN 4.1).  Mutating operations carry POLICY
// preconditions (`allowed_*`): a function under contract states in its own `requires` which mutations
// it is permitted to make, and Verus checks every mutating call against that.

pub type PathV = Seq<u8>;

#[verifier::external_trait_specification]
pub trait ExWrite {
    type ExternalTraitSpecificationFor: std::io::Write;
}

#[verifier::external_trait_specification]
pub trait ExRead {
    type ExternalTraitSpecificationFor: std::io::Read;
}

// ---- opaque std types
#[verifier::external_type_specification]
#[verifier::external_body]
pub struct ExFile(std::fs::File);

#[verifier::external_type_specification]
#[verifier::external_body]
#[verifier::reject_recursive_types(W)]
pub struct ExBufWriter<W: ?Sized + std::io::Write>(std::io::BufWriter<W>);

#[verifier::external_type_specification]
#[verifier::external_body]
#[verifier::reject_recursive_types(R)]
pub struct ExBufReader<R: ?Sized>(std::io::BufReader<R>);

#[verifier::external_type_specification]
#[verifier::external_body]
pub struct ExPathBuf(std::path::PathBuf);

#[verifier::external_type_specification]
#[verifier::external_body]
pub struct ExPath(std::path::Path);

#[verifier::external_type_specification]
#[verifier::external_body]
pub struct ExMetadata(std::fs::Metadata);

// ---- views
pub uninterp spec fn pbv(p: &std::path::PathBuf) -> PathV;
pub uninterp spec fn pv(p: &std::path::Path) -> PathV;
/// the path a generic `P: AsRef<Path>` argument designates
pub uninterp spec fn arp<Q>(q: Q) -> PathV;

#[verifier::external_body]
pub broadcast proof fn axiom_arp_ref<Q>(q: &Q)
    ensures
        #[trigger] arp::<&Q>(q) == arp::<Q>(*q),
{
}

#[verifier::external_body]
pub broadcast proof fn axiom_arp_pathbuf(q: std::path::PathBuf)
    ensures
        #[trigger] arp::<std::path::PathBuf>(q) == pbv(&q),
{
}

#[verifier::external_body]
pub broadcast proof fn axiom_arp_path(q: &std::path::Path)
    ensures
        #[trigger] arp::<&std::path::Path>(q) == pv(q),
{
}

// ---- the snapshot
pub uninterp spec fn fs_exists(p: PathV) -> bool;
pub uninterp spec fn fs_is_dir(p: PathV) -> bool;
pub uninterp spec fn fs_bytes(p: PathV) -> Seq<u8>;
/// no OS-level I/O failure (disk full, EIO, permission) happens during the call under verification
pub uninterp spec fn os_ok() -> bool;

// ---- policy (what the function under contract may do; constrained only by its `requires`)
pub uninterp spec fn allowed_create(p: PathV) -> bool;
pub uninterp spec fn allowed_remove(p: PathV) -> bool;
pub uninterp spec fn allowed_write(p: PathV) -> bool;

// ---- effects that can only be established by the corresponding std call returning Ok
/// `bytes` were handed to the OS as the complete content of `p` (flush / fs::write returned Ok)
pub uninterp spec fn committed(p: PathV, bytes: Seq<u8>) -> bool;
/// `p` was removed (remove_file returned Ok)
pub uninterp spec fn removed(p: PathV) -> bool;

// ---- handles (File, BufWriter<File>, BufReader<File>): generic uninterpreted observers
/// the path the handle was opened on
pub uninterp spec fn h_path<T: ?Sized>(t: &T) -> PathV;
pub uninterp spec fn h_writable<T: ?Sized>(t: &T) -> bool;
/// read side: the bytes not yet consumed
pub uninterp spec fn h_rest<T: ?Sized>(t: &T) -> Seq<u8>;
/// write side: all bytes accepted so far
pub uninterp spec fn h_view<T: ?Sized>(t: &T) -> Seq<u8>;

/// File::create: creates or TRUNCATES (A3); a mutation, so it needs permission
pub assume_specification<Q: core::convert::AsRef<std::path::Path>>[ std::fs::File::create::<Q> ](path: Q) -> (r: std::io::Result<std::fs::File>)
    requires
        allowed_create(arp(path)),
    ensures
        r.is_ok() ==> h_path(&r->Ok_0) == arp(path) && h_writable(&r->Ok_0) && h_view(&r->Ok_0) == Seq::<u8>::empty(),
;

/// fs::create_dir_all / create_dir: creates directories - a mutation, so it needs permission for that path (C10)
pub assume_specification<Q: core::convert::AsRef<std::path::Path>>[ std::fs::create_dir_all::<Q> ](path: Q) -> (r: std::io::Result<()>)
    requires
        allowed_create(arp(path)),
;
pub assume_specification<Q: core::convert::AsRef<std::path::Path>>[ std::fs::create_dir::<Q> ](path: Q) -> (r: std::io::Result<()>)
    requires
        allowed_create(arp(path)),
;
/// fs::rename: removes `from` and creates or replaces `to`
pub assume_specification<Q: core::convert::AsRef<std::path::Path>, R: core::convert::AsRef<std::path::Path>>[ std::fs::rename::<Q, R> ](from: Q, to: R) -> (r: std::io::Result<()>)
    requires
        allowed_remove(arp(from)),
        allowed_create(arp(to)),
;
/// fs::copy: creates or replaces `to`
pub assume_specification<Q: core::convert::AsRef<std::path::Path>, R: core::convert::AsRef<std::path::Path>>[ std::fs::copy::<Q, R> ](from: Q, to: R) -> (r: std::io::Result<u64>)
    requires
        allowed_create(arp(to)),
;
/// fs::remove_dir_all / remove_dir
pub assume_specification<Q: core::convert::AsRef<std::path::Path>>[ std::fs::remove_dir_all::<Q> ](path: Q) -> (r: std::io::Result<()>)
    requires
        allowed_remove(arp(path)),
;
pub assume_specification<Q: core::convert::AsRef<std::path::Path>>[ std::fs::remove_dir::<Q> ](path: Q) -> (r: std::io::Result<()>)
    requires
        allowed_remove(arp(path)),
;

/// File::open: read-only handle positioned at the start of the current content
pub assume_specification<Q: core::convert::AsRef<std::path::Path>>[ std::fs::File::open::<Q> ](path: Q) -> (r: std::io::Result<std::fs::File>)
    ensures
        r.is_ok() ==> h_path(&r->Ok_0) == arp(path) && !h_writable(&r->Ok_0) && h_rest(&r->Ok_0) == fs_bytes(arp(path)),
        r.is_ok() ==> fs_exists(arp(path)),
;

pub assume_specification<W: std::io::Write>[ std::io::BufWriter::<W>::new ](f: W) -> (r: std::io::BufWriter<W>)
    ensures
        h_path(&r) == h_path(&f),
        h_view(&r) == h_view(&f),
;

pub assume_specification<R: std::io::Read>[ std::io::BufReader::<R>::new ](f: R) -> (r: std::io::BufReader<R>)
    ensures
        h_path(&r) == h_path(&f),
        h_rest(&r) == h_rest(&f),
;

/// write_all: on Ok every byte was accepted; on Err nothing is known about the writer's content
pub assume_specification<W: ?Sized + std::io::Write>[ <std::io::BufWriter<W> as std::io::Write>::write_all ](w: &mut std::io::BufWriter<W>, buf: &[u8]) -> (r: std::io::Result<()>)
    ensures
        h_path(final(w)) == h_path(old(w)),
        r.is_ok() ==> h_view(final(w)) == h_view(old(w)) + buf@,
        os_ok() ==> r.is_ok(),
;

/// flush: on Ok the accepted bytes are the file's content
pub assume_specification<W: ?Sized + std::io::Write>[ <std::io::BufWriter<W> as std::io::Write>::flush ](w: &mut std::io::BufWriter<W>) -> (r: std::io::Result<()>)
    ensures
        h_path(final(w)) == h_path(old(w)),
        h_view(final(w)) == h_view(old(w)),
        r.is_ok() ==> committed(h_path(old(w)), h_view(old(w))),
        os_ok() ==> r.is_ok(),
;

/// read_exact: fills the buffer with the next bytes or fails (always fails if not enough bytes remain)
pub assume_specification<R: ?Sized + std::io::Read>[ <std::io::BufReader<R> as std::io::Read>::read_exact ](rd: &mut std::io::BufReader<R>, buf: &mut [u8]) -> (r: std::io::Result<()>)
    ensures
        h_path(final(rd)) == h_path(old(rd)),
        final(buf)@.len() == old(buf)@.len(),
        r.is_ok() ==> old(buf)@.len() <= h_rest(old(rd)).len()
            && final(buf)@ == h_rest(old(rd)).take(old(buf)@.len() as int)
            && h_rest(final(rd)) == h_rest(old(rd)).skip(old(buf)@.len() as int),
        (os_ok() && old(buf)@.len() <= h_rest(old(rd)).len()) ==> r.is_ok(),
;

pub assume_specification[ std::path::Path::exists ](p: &std::path::Path) -> (r: bool)
    ensures
        r == fs_exists(pv(p)),
;

pub assume_specification[ std::path::Path::is_dir ](p: &std::path::Path) -> (r: bool)
    ensures
        r == fs_is_dir(pv(p)),
        r ==> fs_exists(pv(p)),
;

pub assume_specification[ std::path::Path::to_path_buf ](p: &std::path::Path) -> (r: std::path::PathBuf)
    ensures
        pbv(&r) == pv(p),
;

pub assume_specification[ std::path::PathBuf::as_path ](p: &std::path::PathBuf) -> (r: &std::path::Path)
    ensures
        pv(r) == pbv(p),
;

pub assume_specification<Q: core::convert::AsRef<std::path::Path>>[ std::fs::remove_file::<Q> ](path: Q) -> (r: std::io::Result<()>)
    requires
        allowed_remove(arp(path)),
    ensures
        r.is_ok() ==> removed(arp(path)),
        (os_ok() && fs_exists(arp(path)) && !fs_is_dir(arp(path))) ==> r.is_ok(),
;

/// fs::write: whole-file replacement; a mutation, so it needs permission
pub assume_specification<Q: core::convert::AsRef<std::path::Path>, C: core::convert::AsRef<[u8]>>[ std::fs::write::<Q, C> ](path: Q, contents: C) -> (r: std::io::Result<()>)
    requires
        allowed_write(arp(path)),
        // C09: never rewrite a file whose content is already the one to be written
        !(fs_exists(arp(path)) && fs_bytes(arp(path)) == as_bytes_view(contents)),
    ensures
        r.is_ok() ==> committed(arp(path), as_bytes_view(contents)),
        (os_ok() && !fs_is_dir(arp(path))) ==> r.is_ok(),
;

/// the bytes a `C: AsRef<[u8]>` argument designates
pub uninterp spec fn as_bytes_view<C>(c: C) -> Seq<u8>;

#[verifier::external_body]
pub broadcast proof fn axiom_as_bytes_str(c: &str)
    ensures
        #[trigger] as_bytes_view::<&str>(c) == c.spec_bytes(),
{
}

#[verifier::external_body]
pub broadcast proof fn axiom_as_bytes_string_ref(c: &String)
    ensures
        #[trigger] as_bytes_view::<&String>(c) == vstd::utf8::encode_utf8(c@),
{
}

#[verifier::external_type_specification]
#[verifier::external_body]
#[verifier::reject_recursive_types(B)]
pub struct ExLines<B>(std::io::Lines<B>);

/// the characters of a Cow<str>
pub uninterp spec fn cow_v(c: &std::borrow::Cow<'_, str>) -> Seq<char>;
/// String::from_utf8_lossy: valid UTF-8 is decoded as is, invalid sequences become U+FFFD (not modelled further)
pub uninterp spec fn lossy(b: Seq<u8>) -> Seq<char>;

pub assume_specification<'a>[ String::from_utf8_lossy ](v: &'a [u8]) -> (r: std::borrow::Cow<'a, str>)
    ensures
        cow_v(&r) == lossy(v@),
;

/// Display for Cow<str> prints the string itself
#[verifier::external_body]
pub broadcast proof fn axiom_cow_to_string(c: &std::borrow::Cow<'_, str>, s: String)
    requires
        #[trigger] vstd::string::to_string_from_display_ensures::<std::borrow::Cow<'_, str>>(c, s),
    ensures
        s@ == cow_v(c),
{
}

/// R7: `a != b` between a Vec<u8> and a byte slice (std's PartialEq<&[U]> for Vec<T>): element-wise comparison
#[verifier::external_body]
pub fn bytes_differ(a: &Vec<u8>, b: &[u8]) -> (r: bool)
    ensures
        r == (a@ != b@),
{
    a != b
}

/// the bytes are well-formed UTF-8
pub uninterp spec fn is_utf8(b: Seq<u8>) -> bool;

/// A3: what reading a file as text gives while one file is processed (a function of the path); None: unreadable or
/// not UTF-8
pub uninterp spec fn w_read_text(p: PathV) -> Option<Seq<char>>;

/// fs::read_to_string: the whole content as a String; fails on content that is not UTF-8
pub assume_specification<Q: core::convert::AsRef<std::path::Path>>[ std::fs::read_to_string::<Q> ](path: Q) -> (r: std::io::Result<String>)
    ensures
        (match w_read_text(arp(path)) { Some(t) => r is Ok && (r->Ok_0)@ == t, None => r is Err }),
        r.is_ok() ==> fs_exists(arp(path)) && vstd::utf8::encode_utf8((r->Ok_0)@) == fs_bytes(arp(path)) && is_utf8(fs_bytes(arp(path))),
        (os_ok() && fs_exists(arp(path)) && !fs_is_dir(arp(path)) && is_utf8(fs_bytes(arp(path)))) ==> r.is_ok(),
        !is_utf8(fs_bytes(arp(path))) ==> r.is_err(),
;

/// fs::read: the whole content as bytes
pub assume_specification<Q: core::convert::AsRef<std::path::Path>>[ std::fs::read::<Q> ](path: Q) -> (r: std::io::Result<Vec<u8>>)
    ensures
        r.is_ok() ==> fs_exists(arp(path)) && (r->Ok_0)@ == fs_bytes(arp(path)),
        (os_ok() && fs_exists(arp(path)) && !fs_is_dir(arp(path))) ==> r.is_ok(),
;

pub assume_specification[ String::as_bytes ](s: &String) -> (r: &[u8])
    ensures
        r@ == vstd::utf8::encode_utf8(s@),
;

#[verifier::external_body]
pub broadcast proof fn axiom_as_bytes_string_mut_ref(c: &mut String)
    ensures
        #[trigger] as_bytes_view::<&mut String>(c) == vstd::utf8::encode_utf8((*old(c))@),
{
}

/// `AsRef::as_ref`: relation between a value and the reference it converts to
pub uninterp spec fn asref_rel<S: core::marker::PointeeSized, T: core::marker::PointeeSized>(s: &S, t: &T) -> bool;

#[verifier::external_trait_specification]
pub trait ExAsRef<T: core::marker::PointeeSized>: core::marker::PointeeSized {
    type ExternalTraitSpecificationFor: core::convert::AsRef<T>;

    fn as_ref(&self) -> (r: &T)
        ensures
            asref_rel::<Self, T>(self, r),
    ;
}

/// for `AsRef<Path>`: the resulting `&Path` designates the same path as the value (`arp`)
#[verifier::external_body]
pub broadcast proof fn axiom_asref_path<S>(s: &S, t: &std::path::Path)
    requires
        #[trigger] asref_rel::<S, std::path::Path>(s, t),
    ensures
        pv(t) == arp::<&S>(s),
{
}

pub uninterp spec fn md_len(m: &std::fs::Metadata) -> u64;

/// fs::metadata: the length is the number of bytes of the file (A3)
pub assume_specification<Q: core::convert::AsRef<std::path::Path>>[ std::fs::metadata::<Q> ](path: Q) -> (r: std::io::Result<std::fs::Metadata>)
    ensures
        r.is_ok() ==> fs_exists(arp(path)) && md_len(&r->Ok_0) as nat == fs_bytes(arp(path)).len(),
        (os_ok() && fs_exists(arp(path))) ==> r.is_ok(),
;

pub assume_specification[ std::fs::Metadata::len ](m: &std::fs::Metadata) -> (r: u64)
    ensures
        r == md_len(m),
;

/// the path an OS-string-like value designates (`PathBuf::from(&T)`)
pub uninterp spec fn os_path<T: ?Sized>(s: &T) -> PathV;
/// the path written as the given text
pub uninterp spec fn path_of_chars(c: Seq<char>) -> PathV;
pub open spec fn sb_path(s: &str) -> PathV { path_of_chars(s@) }

#[verifier::external_body]
pub broadcast proof fn axiom_os_path_str(s: &str)
    ensures
        #[trigger] os_path::<str>(s) == path_of_chars(s@),
{
}

#[verifier::external_body]
pub broadcast proof fn axiom_os_path_string(s: &String)
    ensures
        #[trigger] os_path::<String>(s) == path_of_chars(s@),
{
}

/// Path::join (std docs): `path` appended to `base`, or `path` itself when it is absolute
pub uninterp spec fn join_v(base: PathV, ext: PathV) -> PathV;

pub assume_specification<Q: core::convert::AsRef<std::path::Path>>[ std::path::Path::join::<Q> ](p: &std::path::Path, path: Q) -> (r: std::path::PathBuf)
    ensures
        pbv(&r) == join_v(pv(p), arp(path)),
;

pub assume_specification<'a, T: ?Sized + core::convert::AsRef<std::ffi::OsStr>>[ <std::path::PathBuf as core::convert::From<&'a T>>::from ](s: &T) -> (r: std::path::PathBuf)
    ensures
        pbv(&r) == os_path::<T>(s),
;

/// the lines a `Lines<BufReader<File>>` iterator will still yield (A1: BufRead::lines strips "\n" / "\r\n")
pub uninterp spec fn h_lines<B>(l: &std::io::Lines<B>) -> Seq<Seq<char>>;
/// the source can be read to the end (valid UTF-8, no OS error)
pub uninterp spec fn read_ok() -> bool;

/// R7 shim for `Lines::next` (A1): the next line without its terminator; an I/O or UTF-8 error is reported as
/// Some(Err).  (A shim instead of an assume_specification: Verus does not normalise the associated type
/// `<Lines<B> as Iterator>::Item` of the trait method's result, which makes the value unusable in closures.)
#[verifier::external_body]
pub fn lines_next(l: &mut std::io::Lines<std::io::BufReader<std::fs::File>>) -> (r: Option<std::io::Result<String>>)
    ensures
        (match r {
            None => h_lines(old(l)).len() == 0 && h_lines(final(l)) == h_lines(old(l)),
            Some(Ok(s)) => h_lines(old(l)).len() > 0 && s@ == h_lines(old(l))[0] && h_lines(final(l)) == h_lines(old(l)).skip(1),
            // an unreadable line (I/O error, invalid UTF-8) still counts as one consumed line
            Some(Err(_)) => h_lines(old(l)).len() > 0 && h_lines(final(l)) == h_lines(old(l)).skip(1),
        }),
        read_ok() ==> !(r is Some && r->Some_0 is Err),
{
    l.next()
}

/// `impl AsRef<Path> for String` / `str`: the path written as that text
#[verifier::external_body]
pub broadcast proof fn axiom_arp_string(q: String)
    ensures
        #[trigger] arp::<String>(q) == path_of_chars(q@),
{
}

/// result of canonicalize (absolute, symlink-free form of an existing path)
pub uninterp spec fn canon(p: PathV) -> PathV;
/// the parent directory of the target exists and is writable, i.e. creating/resolving can succeed
pub uninterp spec fn resolvable(p: PathV) -> bool;

pub assume_specification[ std::path::Path::canonicalize ](p: &std::path::Path) -> (r: std::io::Result<std::path::PathBuf>)
    ensures
        r is Ok ==> pbv(&r->Ok_0) == canon(pv(p)) && fs_exists(pv(p)),
        (os_ok() && fs_exists(pv(p))) ==> r is Ok,
;

pub assume_specification[ std::path::Path::is_absolute ](p: &std::path::Path) -> (r: bool)
    ensures
        r == path_is_absolute(pv(p)),
;
pub uninterp spec fn path_is_absolute(p: PathV) -> bool;

/// Path::join with an absolute argument is that argument
#[verifier::external_body]
pub broadcast proof fn axiom_join_absolute(base: PathV, ext: PathV)
    ensures
        path_is_absolute(ext) ==> #[trigger] join_v(base, ext) == ext,
{
}

pub assume_specification[ std::path::Path::parent ](p: &std::path::Path) -> (r: Option<&std::path::Path>)
    ensures
        (r is Some) == (path_parent(pv(p)) is Some),
        r is Some ==> pv(r->Some_0) == path_parent(pv(p))->Some_0,
;
pub uninterp spec fn path_parent(p: PathV) -> Option<PathV>;

#[verifier::external_type_specification]
#[verifier::external_body]
pub struct ExReadDir(std::fs::ReadDir);

#[verifier::external_type_specification]
#[verifier::external_body]
pub struct ExDirEntry(std::fs::DirEntry);

/// the paths of the entries of directory `d` (A3: each entry once)
pub uninterp spec fn fs_entries(d: PathV) -> Set<PathV>;
pub uninterp spec fn rd_dir(r: &std::fs::ReadDir) -> PathV;
pub uninterp spec fn entry_path(e: &std::fs::DirEntry) -> PathV;

pub assume_specification[ std::path::Path::read_dir ](p: &std::path::Path) -> (r: std::io::Result<std::fs::ReadDir>)
    ensures
        r is Ok ==> rd_dir(&r->Ok_0) == pv(p),
;

pub assume_specification[ std::fs::DirEntry::path ](e: &std::fs::DirEntry) -> (r: std::path::PathBuf)
    ensures
        pbv(&r) == entry_path(e),
;

/// R6(c): iteration over a ReadDir: every entry of the directory exactly once, in an arbitrary order; an entry that
/// cannot be read is an Err item
#[verifier::external_body]
pub fn read_dir_vec(r: std::fs::ReadDir) -> (v: Vec<std::io::Result<std::fs::DirEntry>>)
    ensures
        forall|i: int| 0 <= i < v@.len() && (#[trigger] v@[i]) is Ok ==> fs_entries(rd_dir(&r)).contains(entry_path(&v@[i]->Ok_0)),
        forall|i: int, j: int| 0 <= i < j < v@.len() && v@[i] is Ok && v@[j] is Ok ==> entry_path(&v@[i]->Ok_0) != entry_path(&v@[j]->Ok_0),
        // unless an entry failed to be read, all entries are there
        (forall|i: int| 0 <= i < v@.len() ==> (#[trigger] v@[i]) is Ok) ==> (forall|p: PathV| fs_entries(rd_dir(&r)).contains(p)
            ==> exists|i: int| 0 <= i < v@.len() && entry_path(&(#[trigger] v@[i])->Ok_0) == p),
{
    r.collect()
}
