// ---- prelude/std_collections.rs : TRUSTED contracts on std::collections not covered by vstd.

/// `Entry::or_default`: like vstd's `or_insert` with `V::default()` as the inserted value
pub assume_specification<'a, K, V: Default>[ std::collections::hash_map::Entry::<'a, K, V>::or_default ](
    entry: std::collections::hash_map::Entry<'a, K, V>,
) -> (value: &'a mut V)
    ensures
        (match entry.value() {
            Some(v) => *value == v,
            None => call_ensures(V::default, (), *value),
        }),
        entry.final_value() == Some(*final(value)),
;

/// `Entry::or_insert_with`: like vstd's `or_insert` with `default()` as the inserted value
pub assume_specification<'a, K, V, A: core::alloc::Allocator, F: FnOnce() -> V>[ std::collections::hash_map::Entry::<'a, K, V, A>::or_insert_with ](
    entry: std::collections::hash_map::Entry<'a, K, V, A>,
    default: F,
) -> (value: &'a mut V)
    requires
        entry.value() is None ==> call_requires(default, ()),
    ensures
        (match entry.value() {
            Some(v) => *value == v,
            None => call_ensures(default, (), *value),
        }),
        entry.final_value() == Some(*final(value)),
;

/// when a stored key of type K is the one designated by a borrowed key &Q
pub uninterp spec fn key_matches<K, Q: ?Sized>(stored: K, k: &Q) -> bool;

/// for Q == K the borrowed key designates exactly itself
#[verifier::external_body]
pub broadcast proof fn axiom_key_matches_same<K>(stored: K, k: &K)
    ensures
        #[trigger] key_matches::<K, K>(stored, k) == (stored == *k),
{
}

/// `HashMap::get_mut`: a mutable reference to the value stored under the key; nothing else changes
pub assume_specification<'a, K: core::cmp::Eq + core::hash::Hash, V, S: core::hash::BuildHasher, A: core::alloc::Allocator, Q: ?Sized + core::hash::Hash + core::cmp::Eq>[ std::collections::HashMap::<K, V, S, A>::get_mut::<Q> ](
    m: &'a mut std::collections::HashMap<K, V, S, A>,
    k: &Q,
) -> (r: Option<&'a mut V>)
    where K: core::borrow::Borrow<Q>
    ensures
        vstd::std_specs::hash::obeys_key_model::<K>() && vstd::std_specs::hash::builds_valid_hashers::<S>() ==> (match r {
            Some(v) => vstd::std_specs::hash::contains_borrowed_key(old(m)@, k)
                && vstd::std_specs::hash::maps_borrowed_key_to_value(old(m)@, k, *v)
                && final(m)@.dom() == old(m)@.dom()
                && vstd::std_specs::hash::maps_borrowed_key_to_value(final(m)@, k, *final(v))
                && (forall|k2: K| #[trigger] old(m)@.contains_key(k2) && !key_matches::<K, Q>(k2, k) ==> final(m)@[k2] == old(m)@[k2]),
            None => !vstd::std_specs::hash::contains_borrowed_key(old(m)@, k) && final(m)@ == old(m)@,
        }),
;

/// R6(c): iteration over an owned HashSet visits every element exactly once, in an arbitrary order.
/// The pinned `for x in <owned set>` headers are rewritten to iterate over this vector.
#[verifier::external_body]
pub fn hashset_into_vec<K: core::cmp::Eq + core::hash::Hash>(s: std::collections::HashSet<K>) -> (v: Vec<K>)
    ensures
        v@.no_duplicates(),
        v@.to_set() == s@,
{
    s.into_iter().collect()
}

/// R6(c): iteration over an owned HashMap visits every entry exactly once, in an arbitrary order.
#[verifier::external_body]
pub fn hashmap_into_vec<K: core::cmp::Eq + core::hash::Hash, V>(m: std::collections::HashMap<K, V>) -> (v: Vec<(K, V)>)
    ensures
        v@.map_values(|kv: (K, V)| kv.0).no_duplicates(),
        v@.map_values(|kv: (K, V)| kv.0).to_set() == m@.dom(),
        forall|i: int| 0 <= i < v@.len() ==> m@[(#[trigger] v@[i]).0] == v@[i].1,
{
    m.into_iter().collect()
}

/// A HashMap whose entries are not zero-sized holds at most isize::MAX entries (allocation limit).
#[verifier::external_body]
pub broadcast proof fn axiom_hashmap_len_bound<K, V, S>(m: &std::collections::HashMap<K, V, S>)
    ensures
        #[trigger] m@.dom().len() <= isize::MAX,
{
}
