// ---- prelude/std_common.rs : TRUSTED contracts for small std functions that vstd does not specify.  They are not
// all used by the pinned tree: they keep the front end from rejecting a unit (-> UNDECIDED) when a change to the
// repository starts using them.  Where no `ensures` is given the result is unconstrained (sound, merely weak).

pub assume_specification<T, E>[ core::result::Result::<T, E>::unwrap_or ](r: core::result::Result<T, E>, default: T) -> (o: T)
    ensures
        o == (match r { Ok(v) => v, Err(_) => default }),
;

pub assume_specification<T>[ core::option::Option::<T>::or ](a: Option<T>, b: Option<T>) -> (o: Option<T>)
    ensures
        o == (match a { Some(v) => Some(v), None => b }),
;

pub assume_specification[ String::len ](s: &String) -> (r: usize)
    ensures
        r as nat == vstd::utf8::encode_utf8(s@).len(),
;

/// unconstrained (element equality is `PartialEq::eq`)
pub assume_specification<T: core::cmp::PartialEq>[ <[T]>::contains ](s: &[T], x: &T) -> (r: bool);

/// unconstrained
pub assume_specification<'a>[ str::trim ](s: &'a str) -> (r: &'a str);

/// unconstrained
pub assume_specification<'a>[ str::trim_end ](s: &'a str) -> (r: &'a str);

/// unconstrained
pub assume_specification<'a>[ str::trim_start ](s: &'a str) -> (r: &'a str);

// ---- Option / Result combinators that vstd does not specify (closure contracts via requires/ensures of the closure)
pub assume_specification<T, E, U, F: FnOnce(T) -> Result<U, E>>[ Result::<T, E>::and_then::<U, F> ](r: Result<T, E>, op: F) -> (o: Result<U, E>)
    requires
        r is Ok ==> op.requires((r->Ok_0,)),
    ensures
        r is Ok ==> op.ensures((r->Ok_0,), o),
        r is Err ==> o is Err && o->Err_0 == r->Err_0,
;
pub assume_specification<T, E, F: FnOnce(T) -> bool>[ Result::<T, E>::is_ok_and ](r: Result<T, E>, f: F) -> (o: bool)
    requires
        r is Ok ==> f.requires((r->Ok_0,)),
    ensures
        r is Ok ==> f.ensures((r->Ok_0,), o),
        r is Err ==> !o,
;
pub assume_specification<T, F: FnOnce(T) -> bool>[ Option::<T>::is_some_and ](r: Option<T>, f: F) -> (o: bool)
    requires
        r is Some ==> f.requires((r->Some_0,)),
    ensures
        r is Some ==> f.ensures((r->Some_0,), o),
        r is None ==> !o,
;
pub assume_specification<T, U, F: FnOnce(T) -> U>[ Option::<T>::map_or::<U, F> ](r: Option<T>, default: U, f: F) -> (o: U)
    requires
        r is Some ==> f.requires((r->Some_0,)),
    ensures
        r is Some ==> f.ensures((r->Some_0,), o),
        r is None ==> o == default,
;
pub assume_specification<T, E, F: FnOnce(E) -> T>[ Result::<T, E>::unwrap_or_else::<F> ](r: Result<T, E>, op: F) -> (o: T)
    requires
        r is Err ==> op.requires((r->Err_0,)),
    ensures
        r is Ok ==> o == r->Ok_0,
        r is Err ==> op.ensures((r->Err_0,), o),
;
pub assume_specification<T, E>[ Option::<Result<T, E>>::transpose ](r: Option<Result<T, E>>) -> (o: Result<Option<T>, E>)
    ensures
        o == (match r { None => Ok::<Option<T>, E>(None), Some(Ok(v)) => Ok(Some(v)), Some(Err(e)) => Err(e) }),
;
