// ---- prelude/std_common.rs : TRUSTED contracts for small std functions that vstd does not specify.  They are not
// all used by the pinned tree: they keep the front end from rejecting a unit (-> UNDECIDED) when a change to the
// repository starts using them.  Where no `ensures` is given the result is unconstrained (sound, merely weak).

pub assume_specification<T, E>[ core::result::Result::<T, E>::unwrap_or ](r: core::result::Result<T, E>, default: T) -> (o: T)
    ensures
        o == (match r { Ok(v) => v, Err(_) => default }),
;

pub assume_specification<T>[ core::option::Option::<T>::or ](a: Option<T>, b: Option<T>) -> (o: Option<T>)
    ensures
        o == (match a { Some(v) => Some(v), None => b }),
;

pub assume_specification[ String::len ](s: &String) -> (r: usize)
    ensures
        r as nat == vstd::utf8::encode_utf8(s@).len(),
;

/// unconstrained (element equality is `PartialEq::eq`)
pub assume_specification<T: core::cmp::PartialEq>[ <[T]>::contains ](s: &[T], x: &T) -> (r: bool);

/// unconstrained
pub assume_specification<'a>[ str::trim ](s: &'a str) -> (r: &'a str);

/// unconstrained
pub assume_specification<'a>[ str::trim_end ](s: &'a str) -> (r: &'a str);

/// unconstrained
pub assume_specification<'a>[ str::trim_start ](s: &'a str) -> (r: &'a str);
