// ---- prelude/std_fs_lines.rs : TRUSTED: reading a file line by line (needs spec/lines.rs, spec/first_line.rs, std_fs.rs)

/// A1: the lines `BufRead::lines` yields for a byte content: split at "\n", one trailing "\r" stripped, no final empty
/// piece; for valid UTF-8 this is `lines_of` of the decoded text
pub uninterp spec fn byte_lines(b: Seq<u8>) -> Seq<Seq<char>>;

#[verifier::external_body]
pub broadcast proof fn axiom_byte_lines(b: Seq<u8>)
    ensures
        #![trigger byte_lines(b)]
        lines_clean(byte_lines(b)),
        byte_lines(b).len() <= b.len(),
        // A6: a file has fewer than usize::MAX lines
        byte_lines(b).len() <= usize::MAX,
        is_utf8(b) ==> byte_lines(b) == lines_of(vstd::utf8::decode_utf8(b)),
{
}

/// R6: stands for `r.lines()` on a `BufReader<File>` (a provided trait method, which Verus cannot specify)
#[verifier::external_body]
pub fn buf_lines(r: std::io::BufReader<std::fs::File>) -> (l: std::io::Lines<std::io::BufReader<std::fs::File>>)
    ensures
        h_lines(&l) == byte_lines(h_rest(&r)),
{
    use std::io::BufRead;
    r.lines()
}

/// R6: stands for `File::open(p).map(BufReader::new).and_then(|mut r| r.read_until(b'\n', &mut buf))`: the first line
/// of the file including its terminator is appended to `buf`; the result is the number of bytes read
#[verifier::external_body]
pub fn read_first_line<Q: core::convert::AsRef<std::path::Path>>(p: Q, buf: &mut Vec<u8>) -> (r: std::io::Result<usize>)
    ensures
        r is Ok ==> final(buf)@ == old(buf)@ + first_line_bytes(fs_bytes(arp(p))),
        r is Ok ==> r->Ok_0 == first_line_bytes(fs_bytes(arp(p))).len(),
        r is Ok ==> fs_exists(arp(p)),
{
    use std::io::BufRead;
    std::fs::File::open(p).map(std::io::BufReader::new).and_then(|mut r| r.read_until(b'\n', buf))
}

