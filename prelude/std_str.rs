// ---- prelude/std_str.rs : TRUSTED contracts on core::str methods (transcribed from the std docs).
// Everything here is an assumption and is listed in each evidence file's trusted_base.

#[verifier::external_trait_specification]
pub trait ExPattern: Sized {
    type ExternalTraitSpecificationFor: core::str::pattern::Pattern;
}

/// what a pattern value means (see spec/text.rs PatKind); fixed per pattern type by the axioms below
pub uninterp spec fn pat_kind<P>(p: P) -> PatKind;

/// `&str` as a pattern matches that literal substring
#[verifier::external_body]
pub broadcast proof fn axiom_pat_kind_str(p: &str)
    ensures
        #[trigger] pat_kind::<&str>(p) == PatKind::Str(p@),
{
}

/// `&String` as a pattern matches that literal substring
#[verifier::external_body]
pub broadcast proof fn axiom_pat_kind_string(p: &String)
    ensures
        #[trigger] pat_kind::<&String>(p) == PatKind::Str(p@),
{
}

/// a `char` as a pattern matches exactly that character
#[verifier::external_body]
pub broadcast proof fn axiom_pat_kind_char(p: char)
    ensures
        #[trigger] pat_kind::<char>(p) == PatKind::Pred(char_pred(p)),
{
}

/// an `FnMut(char) -> bool` as a pattern matches the characters for which it returns true
#[verifier::external_body]
pub proof fn axiom_pat_kind_fn<F: FnMut(char) -> bool>(f: F, pred: spec_fn(char) -> bool)
    requires
        forall|c: char| #[trigger] f.requires((c,)),
        forall|c: char, b: bool| #[trigger] f.ensures((c,), b) ==> b == pred(c),
    ensures
        pat_kind::<F>(f) == PatKind::Pred(pred),
{
}

/// `&str` values with the same characters are indistinguishable (Verus encodes `match s { "lit" => .. }`
/// and `a == b` on `&str` as equality of the values).
#[verifier::external_body]
pub broadcast proof fn axiom_str_ext(a: &str, b: &str)
    requires
        a@ == b@,
    ensures
        #[trigger] eq_marker(a, b),
        a == b,
{
}
pub open spec fn eq_marker(a: &str, b: &str) -> bool { true }

// vstd specifies SliceIndex<str> (char-boundary precondition, byte-subrange postcondition) but does not
// connect `Index for str` to it.
pub assume_specification<I: core::slice::SliceIndex<str>>[ <str as core::ops::Index<I>>::index ](s: &str, index: I) -> (output: &I::Output)
    ensures
        call_ensures(<I as core::slice::SliceIndex<str>>::index, (index, s), output),
;

/// str::find: byte offset of the first match (always a char boundary), None if there is no match
pub assume_specification<'a, P: core::str::pattern::Pattern>[ str::find::<P> ](s: &'a str, pat: P) -> (r: Option<usize>)
    ensures
        match pk_find(pat_kind(pat), s@) {
            Some(i) => r.is_some() && r.unwrap() as nat == blen(s@.take(i)),
            None => r.is_none(),
        },
;

pub assume_specification<'a, P: core::str::pattern::Pattern>[ str::starts_with::<P> ](s: &'a str, pat: P) -> (r: bool)
    ensures
        r == pk_starts_with(pat_kind(pat), s@),
;

pub assume_specification<'a, P: core::str::pattern::Pattern>[ str::split_once::<P> ](s: &'a str, pat: P) -> (r: Option<(&'a str, &'a str)>)
    ensures
        match pk_split_once(pat_kind(pat), s@) {
            Some(ab) => r.is_some() && r.unwrap().0@ == ab.0 && r.unwrap().1@ == ab.1,
            None => r.is_none(),
        },
;

/// for single-character patterns: all matching characters removed from both ends
pub assume_specification<'a, P: core::str::pattern::Pattern>[ str::trim_matches::<P> ](s: &'a str, pat: P) -> (r: &'a str)
    where for<'b> P::Searcher<'b>: core::str::pattern::DoubleEndedSearcher<'b>,
    ensures
        pat_kind(pat) is Pred ==> r@ == trim_where(s@, pk_pred(pat_kind(pat))),
;

/// for single-character patterns: all matching characters removed from the end
pub assume_specification<'a, P: core::str::pattern::Pattern>[ str::trim_end_matches::<P> ](s: &'a str, pat: P) -> (r: &'a str)
    where for<'b> P::Searcher<'b>: core::str::pattern::ReverseSearcher<'b>,
    ensures
        pat_kind(pat) is Pred ==> r@ == trim_end_where(s@, pk_pred(pat_kind(pat))),
;


/// str::repeat: n copies of the string
pub assume_specification[ str::repeat ](s: &str, n: usize) -> (r: String)
    ensures
        r@ == repeat_seq(s@, n as nat),
;

#[verifier::external_type_specification]
#[verifier::external_body]
pub struct ExStrLines<'a>(core::str::Lines<'a>);

/// str::lines (std docs): split at '\n', one trailing '\r' stripped per line, a final empty line dropped
pub assume_specification<'a>[ str::lines ](s: &'a str) -> (r: core::str::Lines<'a>)
    ensures
        iter_strs(r) == lines_of(s@),
;

pub assume_specification<'a, P: core::str::pattern::Pattern>[ str::ends_with::<P> ](s: &'a str, pat: P) -> (r: bool)
    where for<'b> P::Searcher<'b>: core::str::pattern::ReverseSearcher<'b>,
    ensures
        r == pk_ends_with(pat_kind(pat), s@),
;

/// R6: `s.lines().collect::<Vec<_>>()` (std docs of str::lines)
#[verifier::external_body]
pub fn str_lines_vec<'a>(s: &'a str) -> (v: Vec<&'a str>)
    ensures
        v@.map_values(|l: &str| l@) == lines_of(s@),
{
    s.lines().collect::<Vec<_>>()
}

/// relation between the arguments and the result of `[T]::join(sep)`
pub uninterp spec fn join_rel<T, Separator, O>(s: &[T], sep: Separator, out: O) -> bool;

#[verifier::external_trait_specification]
pub trait ExJoin<Separator> {
    type ExternalTraitSpecificationFor: std::slice::Join<Separator>;
    type Output;
}

pub assume_specification<T, Separator>[ <[T]>::join::<Separator> ](s: &[T], sep: Separator) -> (r: <[T] as std::slice::Join<Separator>>::Output)
    where [T]: std::slice::Join<Separator>
    ensures
        join_rel(s, sep, r),
;

/// `[String]::join(&str)` (std docs): the strings separated by `sep`
#[verifier::external_body]
pub broadcast proof fn axiom_join_strings(s: &[String], sep: &str, out: String)
    requires
        #[trigger] join_rel::<String, &str, String>(s, sep, out),
    ensures
        out@ == join_with(s@.map_values(|x: String| x@), sep@),
{
}

/// R6/R3': stands for `raw_output.map(|s| format!("{whitespaces}{line}", line = s.as_ref())).collect::<Vec<_>>()`:
/// every string the iterator yields, prefixed with `whitespaces` (Display for str is the identity)
#[verifier::external_body]
pub fn prefix_each<I: Iterator<Item = S>, S: AsRef<str>>(raw_output: I, whitespaces: &str) -> (v: Vec<String>)
    ensures
        v@.map_values(|x: String| x@) == iter_strs(raw_output).map_values(|l: Seq<char>| whitespaces@ + l),
{
    raw_output.map(|s| format!("{whitespaces}{line}", line = s.as_ref())).collect::<Vec<_>>()
}
