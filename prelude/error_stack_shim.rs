// ---- prelude/error_stack_shim.rs : TRUSTED stand-in for the `error_stack` crate (A2).
// Contract: never panics; Ok stays Ok with the same value; Err stays Err; message/context content is
// not modelled.  Lazy closures are only required to be callable on the Err path.
pub mod error_stack {
    use vstd::prelude::*;

    pub trait Context: Sized {}

    pub struct Report<C> {
        pub ctx: core::marker::PhantomData<C>,
    }

    pub type Result<T, C> = core::result::Result<T, Report<C>>;

    impl<C> Report<C> {
        #[verifier::external_body]
        pub fn new(c: C) -> (r: Self) {
            Report { ctx: core::marker::PhantomData }
        }

        #[verifier::external_body]
        pub fn attach_printable<A>(self, a: A) -> (r: Self) {
            self
        }

        #[verifier::external_body]
        pub fn change_context<T>(self, t: T) -> (r: Report<T>) {
            Report { ctx: core::marker::PhantomData }
        }
    }

    impl<C> From<C> for Report<C> {
        #[verifier::external_body]
        fn from(c: C) -> (r: Self) {
            Report { ctx: core::marker::PhantomData }
        }
    }

    pub trait ResultExt: Sized {
        type Ok;

        spec fn ext_is_ok(&self) -> bool;

        spec fn ext_ok_value(&self) -> Self::Ok;

        fn change_context<C2>(self, c: C2) -> (r: core::result::Result<Self::Ok, Report<C2>>)
            ensures
                r.is_ok() == self.ext_is_ok(),
                r.is_ok() ==> r->Ok_0 == self.ext_ok_value(),
        ;

        fn change_context_lazy<C2, F: FnOnce() -> C2>(self, f: F) -> (r: core::result::Result<Self::Ok, Report<C2>>)
            requires
                !self.ext_is_ok() ==> f.requires(()),
            ensures
                r.is_ok() == self.ext_is_ok(),
                r.is_ok() ==> r->Ok_0 == self.ext_ok_value(),
        ;

        fn attach_printable<A>(self, a: A) -> (r: Self)
            ensures
                r.ext_is_ok() == self.ext_is_ok(),
                r.ext_is_ok() ==> r.ext_ok_value() == self.ext_ok_value(),
        ;

        fn attach_printable_lazy<A, F: FnOnce() -> A>(self, f: F) -> (r: Self)
            requires
                !self.ext_is_ok() ==> f.requires(()),
            ensures
                r.ext_is_ok() == self.ext_is_ok(),
                r.ext_is_ok() ==> r.ext_ok_value() == self.ext_ok_value(),
        ;
    }

    impl<T, C> ResultExt for core::result::Result<T, Report<C>> {
        type Ok = T;

        open spec fn ext_is_ok(&self) -> bool {
            self.is_ok()
        }

        open spec fn ext_ok_value(&self) -> T {
            self->Ok_0
        }

        fn change_context<C2>(self, c: C2) -> (r: core::result::Result<T, Report<C2>>) {
            match self {
                Ok(v) => Ok(v),
                Err(e) => Err(e.change_context(c)),
            }
        }

        fn change_context_lazy<C2, F: FnOnce() -> C2>(self, f: F) -> (r: core::result::Result<T, Report<C2>>) {
            match self {
                Ok(v) => Ok(v),
                Err(e) => Err(e.change_context(f())),
            }
        }

        fn attach_printable<A>(self, a: A) -> (r: Self) {
            match self {
                Ok(v) => Ok(v),
                Err(e) => Err(e.attach_printable(a)),
            }
        }

        fn attach_printable_lazy<A, F: FnOnce() -> A>(self, f: F) -> (r: Self) {
            match self {
                Ok(v) => Ok(v),
                Err(e) => Err(e.attach_printable(f())),
            }
        }
    }

    #[verifier::external_type_specification]
    #[verifier::external_body]
    pub struct ExIoError(std::io::Error);

    // `Result<T, E>` with a plain error type (std::io::Error here)
    #[verifier::external_body]
    pub fn report_from_io(e: std::io::Error) -> (r: Report<std::io::Error>) {
        Report { ctx: core::marker::PhantomData }
    }

    impl<T> ResultExt for core::result::Result<T, std::io::Error> {
        type Ok = T;

        open spec fn ext_is_ok(&self) -> bool {
            self.is_ok()
        }

        open spec fn ext_ok_value(&self) -> T {
            self->Ok_0
        }

        fn change_context<C2>(self, c: C2) -> (r: core::result::Result<T, Report<C2>>) {
            match self {
                Ok(v) => Ok(v),
                Err(e) => Err(report_from_io(e).change_context(c)),
            }
        }

        fn change_context_lazy<C2, F: FnOnce() -> C2>(self, f: F) -> (r: core::result::Result<T, Report<C2>>) {
            match self {
                Ok(v) => Ok(v),
                Err(e) => Err(report_from_io(e).change_context(f())),
            }
        }

        #[verifier::external_body]
        fn attach_printable<A>(self, a: A) -> (r: Self) {
            self
        }

        #[verifier::external_body]
        fn attach_printable_lazy<A, F: FnOnce() -> A>(self, f: F) -> (r: Self) {
            self
        }
    }
}
